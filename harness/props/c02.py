"""C02 correspondence: bind / superpose / binding and inversion matrices of the
three algebras against Model/Hrr.v and Model/Vtb.v evaluated at Z."""

import numpy as np

from harness import algs
from harness import common as c

RULE = ("per algebra and dimensionality: all d*d basis pairs through bind (complete basis, small d), "
        "every basis vector through get_binding_matrix (both swap_inputs) and invert, the inversion matrix, "
        "random integer vectors with whole column families bind(e_i,b), bind(b,e_i) for further d, random integer "
        "pairs incl. named extreme shapes (zero, constant, alternating, +-1e6, last basis vector), additivity / "
        "homogeneity probes, unequal lengths, is_valid_dimensionality over a range of d. Non-trivial = at least "
        "one operand is non-zero; distinct = distinct (operation, algebra, operands).")
ASSUMPTIONS = [
    "NumPy FFT / dot are observed through their results only; float rounding is bounded by the tolerance "
    "(1e-9 relative + 1e-9 * d * max|a| * max|b| absolute), not modelled",
    "bilinearity (theorem) extends agreement on a complete basis of a given d to all real inputs of that d",
]


def run(rep, tier, rng):
    quick = tier == "quick"
    exprs, meta = [], []

    def add(expr, m, key, nontrivial=True, sample=None):
        exprs.append(expr)
        meta.append(m)
        rep.case(key, nontrivial, sample)
        rep.count(m["op"])

    def obs_t(o, enc):
        try:
            return c.obs_term(o, enc)
        except Exception:  # noqa: value of an unexpected shape
            return "(OExn OtherError)"

    for al in algs.ALGS:
        A = algs.alg_obj(al)
        # ---- is_valid_dimensionality --------------------------------------
        ds = list(range(-2, 201 if quick else 2001)) + ([2 ** 20, 2 ** 20 + 1, 3 ** 20] if not quick else [])
        for d in ds:
            o = c.observe(lambda: bool(A.is_valid_dimensionality(d)))
            if d < 0 or d >= 5000:
                # nat model: negative d and huge d are checked against the closed form
                exp = (d > 0) if al == "AHrr" else (d > 0 and int(round(d ** 0.5)) ** 2 == d)
                if o[0] != "ok" or o[1] != exp:
                    rep.violation(f"{al}.is_valid_dimensionality({d}) = {o[:2]}, expected {exp}",
                                  {"case": {"alg": al, "d": d}, "observed": c.obs_json(o),
                                   "python": algs.PRELUDE + f"assert bool({algs.alg_py(al)}.is_valid_dimensionality({d})) == {exp}\n"})
                rep.case(("valid", al, d))
                rep.count("valid_closed_form")
                continue
            ob = c.b(o[1]) if o[0] == "ok" else "false"
            add(f"check_valid {al} {c.nat(d)} {ob}", {"op": "valid", "alg": al, "d": d, "obs": c.obs_json(o)},
                ("valid", al, d))

        full = 12 if quick else 24
        dmax = 32 if quick else 64
        fullv = 16 if quick else 25
        dmaxv = 36 if quick else 64
        for d in algs.dims_for(al, dmax if al == "AHrr" else dmaxv):
            complete = d <= (full if al == "AHrr" else fullv)
            E = [algs.basis(d, k) for k in range(d)]

            def bind_case(a, bb, kind):
                o = c.observe(lambda: A.bind(algs.fl(a), algs.fl(bb)))
                add(f"check_bind {al} {c.zlist(a)} {c.zlist(bb)} {algs.tol_for(a, bb, d=d)} {obs_t(o, algs.enc_vec)}",
                    {"op": "bind", "alg": al, "a": a, "b": bb, "kind": kind, "obs": c.obs_json(o)},
                    ("bind", al, tuple(a), tuple(bb)), nontrivial=any(a) and any(bb),
                    sample={"op": "bind", "alg": al, "a": a, "b": bb, "observed": c.obs_json(o)} if d in (4, 5) and kind == "random" else None)
                if len(a) <= 16 and len(a) == len(bb) and kind in ("random", "linear-left", "shape-alt") and any(a) and any(bb):
                    # bilinearity holds at every magnitude: operands scaled by 2^-20 (result rescaled exactly by 2^40)
                    osm = c.observe(lambda: A.bind(algs.fl(a) * 2.0 ** -20, algs.fl(bb) * 2.0 ** -20) * 2.0 ** 40)
                    add(f"check_bind {al} {c.zlist(a)} {c.zlist(bb)} {algs.tol_for(a, bb, d=d)} {obs_t(osm, algs.enc_vec)}",
                        {"op": "bind-small-operands", "alg": al, "a": a, "b": bb, "kind": kind, "obs": c.obs_json(osm)},
                        ("bind-small", al, tuple(a), tuple(bb)))
                if len(a) <= 16 and len(a) == len(bb) and kind in ("random", "column"):
                    # operands are not modified; one array object as both operands; single precision
                    xa, xb = algs.fl(a), algs.fl(bb)
                    sa_, sb_ = xa.copy(), xb.copy()
                    c.outcome(lambda: A.bind(xa, xb)); c.outcome(lambda: A.superpose(xa, xb)); c.outcome(lambda: A.get_binding_matrix(xb))
                    rep.count("operands-unchanged")
                    if not (np.array_equal(xa, sa_) and np.array_equal(xb, sb_)):
                        rep.violation(f"{al} bind / superpose / get_binding_matrix modified an operand in place", {"case": {"alg": al, "a": a, "b": bb}})
                    osame = c.observe(lambda: A.bind(xa, xa))
                    add(f"check_bind {al} {c.zlist(a)} {c.zlist(a)} {algs.tol_for(a, a, d=d)} {obs_t(osame, algs.enc_vec)}",
                        {"op": "bind-same-object", "alg": al, "a": a, "b": a, "kind": kind, "obs": c.obs_json(osame)},
                        ("bind-same", al, tuple(a)), nontrivial=any(a))
                    o32 = c.observe(lambda: np.asarray(A.bind(xa.astype(np.float32), xb.astype(np.float32)), dtype=float))
                    m32 = max(1, max(abs(x) for x in a)) * max(1, max(abs(x) for x in bb)) * len(a) * len(a)
                    add(f"check_bind {al} {c.zlist(a)} {c.zlist(bb)} ({c.z(m32)}, 100000%Z) {obs_t(o32, algs.enc_vec)}",
                        {"op": "bind-float32", "alg": al, "a": a, "b": bb, "kind": kind, "obs": c.obs_json(o32)},
                        ("bind-f32", al, tuple(a), tuple(bb)), nontrivial=any(a) and any(bb))
                if len(a) <= 16 and len(a) == len(bb) and kind in ("basis", "random"):
                    oi = c.observe(lambda: A.bind(np.array(a, dtype=int), np.array(bb, dtype=int)))
                    add(f"check_bind {al} {c.zlist(a)} {c.zlist(bb)} {algs.tol_for(a, bb, d=d)} {obs_t(oi, algs.enc_vec)}",
                        {"op": "bind-int-dtype", "alg": al, "a": a, "b": bb, "kind": kind, "obs": c.obs_json(oi)},
                        ("bind-int", al, tuple(a), tuple(bb)), nontrivial=any(a) and any(bb))

            def bmat_case(v, swap, kind):
                if kind == "random":
                    # the flag given positionally, as the AbstractAlgebra signature allows
                    op_ = c.observe(lambda: A.get_binding_matrix(algs.fl(v), swap))
                    add(f"check_bmat {al} {c.zlist(v)} {c.b(swap)} {algs.tol_for(v, d=1)} {obs_t(op_, algs.enc_mat)}",
                        {"op": "bmat", "alg": al, "v": v, "swap": swap, "kind": "after-positional-flag", "obs": c.obs_json(op_),
                         "python": algs.PRELUDE + f"A = {algs.alg_py(al)}\nv = np.array({v}, float)\nM = A.get_binding_matrix(v, {swap})\n"
                         f"x = np.arange(1.0, {len(v)} + 1)\nassert np.allclose(M @ x, A.bind(v, x) if {swap} else A.bind(x, v))\n"},
                        ("bmat-positional", al, tuple(v), swap), nontrivial=any(v))
                if kind == "random":
                    # truthy / falsy flags that are not the Python bool singletons (NumPy booleans, 0 / 1)
                    for form, fv_ in (("np.bool_", np.bool_(swap)), ("int", int(swap))):
                        of_ = c.observe(lambda: A.get_binding_matrix(algs.fl(v), swap_inputs=fv_))
                        add(f"check_bmat {al} {c.zlist(v)} {c.b(swap)} {algs.tol_for(v, d=1)} {obs_t(of_, algs.enc_mat)}",
                            {"op": "bmat", "alg": al, "v": v, "swap": swap, "kind": "flag-as-" + form, "obs": c.obs_json(of_),
                             "python": algs.PRELUDE + f"A = {algs.alg_py(al)}\nv = np.array({v}, float)\nM = A.get_binding_matrix(v, swap_inputs={'np.bool_' if form == 'np.bool_' else 'int'}({swap}))\n"
                             f"x = np.arange(1.0, {len(v)} + 1)\nassert np.allclose(M @ x, A.bind(v, x) if {swap} else A.bind(x, v))\n"},
                            ("bmat-flag-form", form, al, tuple(v), swap), nontrivial=any(v))
                o = c.observe(lambda: A.get_binding_matrix(algs.fl(v), swap_inputs=swap))
                add(f"check_bmat {al} {c.zlist(v)} {c.b(swap)} {algs.tol_for(v, d=1)} {obs_t(o, algs.enc_mat)}",
                    {"op": "bmat", "alg": al, "v": v, "swap": swap, "kind": kind, "obs": c.obs_json(o)},
                    ("bmat", al, tuple(v), swap), nontrivial=any(v))
                if len(v) <= 16 and kind in ("basis", "random", "shape-alt", "shape-big", "shape-ones"):
                    # integer-typed arrays are vectors too
                    oi = c.observe(lambda: A.get_binding_matrix(np.array(v, dtype=int), swap_inputs=swap))
                    add(f"check_bmat {al} {c.zlist(v)} {c.b(swap)} {algs.tol_for(v, d=1)} {obs_t(oi, algs.enc_mat)}",
                        {"op": "bmat-int-dtype", "alg": al, "v": v, "swap": swap, "kind": kind, "obs": c.obs_json(oi)},
                        ("bmat-int", al, tuple(v), swap), nontrivial=any(v))

            def inv_case(v, sd):
                o = c.observe(lambda: A.invert(algs.fl(v), sidedness=algs.side_obj(sd)))
                add(f"check_invert {al} {c.zlist(v)} {sd} {algs.tol_for(v)} {obs_t(o, algs.enc_vec)}",
                    {"op": "invert", "alg": al, "v": v, "side": sd, "obs": c.obs_json(o)},
                    ("invert", al, tuple(v), sd), nontrivial=any(v))

            if complete:
                for a in E:
                    for bb in E:
                        bind_case(a, bb, "basis")
                for v in E:
                    for swap in (False, True):
                        bmat_case(v, swap, "basis")
                    inv_case(v, "SRight")
            nrand = 3 if quick else 10
            for _ in range(nrand if not complete else 1):
                bvec = algs.rand_vec(rng, d)
                for e in (E if not complete else E[:2]):
                    bind_case(e, bvec, "column")
                    bind_case(bvec, e, "column")
                for swap in (False, True):
                    bmat_case(bvec, swap, "random")
                for sd in ("SLeft", "SRight", "STwo"):
                    inv_case(bvec, sd)
            # the matrix route equals the direct route: compared through the model (both are tied to it)
            for sd in ("SLeft", "SRight", "STwo"):
                o = c.observe(lambda: A.get_inversion_matrix(d, sidedness=algs.side_obj(sd)))
                add(f"check_imat {al} {c.nat(d)} {sd} (1%Z, 1000000000%Z) {obs_t(o, algs.enc_mat)}",
                    {"op": "imat", "alg": al, "d": d, "side": sd, "obs": c.obs_json(o)}, ("imat", al, d, sd))
            # random pairs, extreme shapes, linearity probes
            sh = algs.shapes(rng, d)
            nprobe = 2 if quick else 6
            for _ in range(nprobe):
                a, bb, a2 = (algs.rand_vec(rng, d) for _ in range(3))
                bind_case(a, bb, "random")
                al_, be = rng.randint(-4, 4), rng.randint(-4, 4)
                lin = [al_ * x + be * y for x, y in zip(a, a2)]
                bind_case(lin, bb, "linear-left")
                bind_case(a2, bb, "linear-left")
                bind_case(bb, lin, "linear-right")
                bind_case(bb, a2, "linear-right")
                o = c.observe(lambda: A.superpose(algs.fl(a), algs.fl(bb)))
                add(f"check_superpose {c.zlist(a)} {c.zlist(bb)} {algs.tol_for(a, bb)} {obs_t(o, algs.enc_vec)}",
                    {"op": "superpose", "alg": al, "a": a, "b": bb, "obs": c.obs_json(o)},
                    ("superpose", al, tuple(a), tuple(bb)))
            for nm, v in sh.items():
                w = algs.rand_vec(rng, d)
                bind_case(v, w, "shape-" + nm)
                bind_case(w, v, "shape-" + nm)
                if nm in ("alt", "big"):
                    bind_case(v, v, "shape-" + nm)
            # unequal lengths are rejected
            if d > 1:
                bind_case(algs.rand_vec(rng, d), algs.rand_vec(rng, d - 1), "unequal")
        # every pair of unequal lengths is rejected (incl. lengths that reshape into each other's blocks)
        N = 12 if quick else 30
        for la in range(1, N + 1):
            for lb in range(1, N + 1):
                if la != lb and (la <= 6 or lb <= 6 or la % lb == 0 or lb % la == 0 or (la * lb) % 4 == 0 or rng.random() < 0.2):
                    bind_case(algs.rand_vec(rng, la), algs.rand_vec(rng, lb), "unequal-grid")
        for la, lb in ((2, 1), (8, 16), (16, 8), (4, 16), (16, 4), (6, 9), (9, 6), (3, 9), (9, 3), (32, 16), (8, 4)):
            bind_case(algs.rand_vec(rng, la), algs.rand_vec(rng, lb), "unequal-grid")
        # superposition of unequal lengths is rejected as well - also when one operand has length 1 (NumPy would broadcast it)
        for la, lb in ((1, 2), (2, 1), (1, 4), (4, 1), (1, 16), (16, 1), (1, 9), (3, 4), (4, 3), (16, 17), (9, 16), (1, 1), (4, 4)):
            a, bb = algs.rand_vec(rng, la), algs.rand_vec(rng, lb)
            o = c.observe(lambda: A.superpose(algs.fl(a), algs.fl(bb)))
            add(f"check_superpose {c.zlist(a)} {c.zlist(bb)} {algs.tol_for(a, a)} {obs_t(o, algs.enc_vec)}",
                {"op": "superpose", "alg": al, "a": a, "b": bb, "kind": "unequal-lengths" if la != lb else "equal-lengths", "obs": c.obs_json(o)},
                ("superpose-len", al, tuple(a), tuple(bb)))
        # invalid dimensionalities for the square algebras
        if al != "AHrr":
            for d, zero in [(dd, z) for dd in (2, 3, 5, 8, 12, 15) for z in (False, True)]:
                v = [0] * d if zero else algs.rand_vec(rng, d)        # the zero vector of a non-square length is rejected as well
                o = c.observe(lambda: A.bind(algs.fl(v), algs.fl(v)))
                add(f"check_bind {al} {c.zlist(v)} {c.zlist(v)} {algs.tol_for(v, v, d=d)} {obs_t(o, algs.enc_vec)}",
                    {"op": "bind", "alg": al, "a": v, "b": v, "kind": "invalid-d", "obs": c.obs_json(o)},
                    ("bind", al, tuple(v), tuple(v)))

        # ---- call history on one algebra object -----------------------------------------------------------
        # (a) larger dimensionalities first, then smaller ones; (b) the caller scribbles over what it was handed
        hd = [dd for dd in algs.dims_for(al, 16 if al == "AHrr" else 25)]
        for d in sorted(hd, reverse=True):
            v = algs.rand_vec(rng, d)
            for swap in (False, True):
                pre = f"A.get_binding_matrix(np.ones({max(hd)}))\n"
                o = c.observe(lambda: A.get_binding_matrix(algs.fl(v), swap_inputs=swap))
                add(f"check_bmat {al} {c.zlist(v)} {c.b(swap)} {algs.tol_for(v, d=1)} {obs_t(o, algs.enc_mat)}",
                    {"op": "bmat", "alg": al, "v": v, "swap": swap, "kind": "after-larger-dimensionality", "obs": c.obs_json(o),
                     "python": algs.PRELUDE + f"A = {algs.alg_py(al)}\n" + pre + f"v = np.array({v}, float)\nM = A.get_binding_matrix(v, swap_inputs={swap})\n"
                     f"x = np.arange(1.0, {d} + 1)\nassert np.allclose(M @ x, A.bind(v, x) if {swap} else A.bind(x, v)), 'binding matrix after a larger one differs from binding'\n"},
                    ("bmat-desc", al, tuple(v), swap), nontrivial=any(v))
            o = c.observe(lambda: A.bind(algs.fl(v), algs.fl(v[::-1])))
            add(f"check_bind {al} {c.zlist(v)} {c.zlist(v[::-1])} {algs.tol_for(v, v, d=d)} {obs_t(o, algs.enc_vec)}",
                {"op": "bind", "alg": al, "a": v, "b": v[::-1], "kind": "after-larger-dimensionality", "obs": c.obs_json(o)},
                ("bind-desc", al, tuple(v)), nontrivial=any(v))
        for d in hd[:6] if quick else hd:
            v = algs.rand_vec(rng, d)

            def scribble(x):
                try:
                    if isinstance(x, np.ndarray):
                        x *= -0.5
                        x.flat[0] = 7.0
                except ValueError:
                    pass          # read-only results are fine
            for swap in (False, True):
                first = c.observe(lambda: A.get_binding_matrix(algs.fl(v), swap_inputs=swap))
                if first[0] == "ok":
                    scribble(first[1])
                o = c.observe(lambda: A.get_binding_matrix(algs.fl(v), swap_inputs=swap))
                add(f"check_bmat {al} {c.zlist(v)} {c.b(swap)} {algs.tol_for(v, d=1)} {obs_t(o, algs.enc_mat)}",
                    {"op": "bmat", "alg": al, "v": v, "swap": swap, "kind": "after-caller-modified-the-previous-result", "obs": c.obs_json(o),
                     "python": algs.PRELUDE + f"A = {algs.alg_py(al)}\nv = np.array({v}, float)\nM0 = A.get_binding_matrix(v, swap_inputs={swap})\n"
                     f"try:\n    M0 *= -0.5\nexcept ValueError:\n    pass\nM = A.get_binding_matrix(v, swap_inputs={swap})\n"
                     f"x = np.arange(1.0, {d} + 1)\nassert np.allclose(M @ x, A.bind(v, x) if {swap} else A.bind(x, v)), 'binding matrix changed after the caller modified an earlier result'\n"},
                    ("bmat-scribbled", al, tuple(v), swap), nontrivial=any(v))
            for sd in ("SLeft", "SRight", "STwo"):
                first = c.observe(lambda: A.get_inversion_matrix(d, sidedness=algs.side_obj(sd)))
                if first[0] == "ok":
                    scribble(first[1])
                o = c.observe(lambda: A.get_inversion_matrix(d, sidedness=algs.side_obj(sd)))
                add(f"check_imat {al} {c.nat(d)} {sd} (1%Z, 1000000000%Z) {obs_t(o, algs.enc_mat)}",
                    {"op": "imat", "alg": al, "d": d, "side": sd, "kind": "after-caller-modified-the-previous-result", "obs": c.obs_json(o),
                     "python": algs.PRELUDE + f"A = {algs.alg_py(al)}\nM0 = A.get_inversion_matrix({d}, sidedness={algs.SIDE_PY[sd]})\n"
                     f"try:\n    M0 *= -0.5\nexcept ValueError:\n    pass\nM = A.get_inversion_matrix({d}, sidedness={algs.SIDE_PY[sd]})\n"
                     f"v = np.arange(1.0, {d} + 1)\nassert np.allclose(M @ v, A.invert(v, sidedness={algs.SIDE_PY[sd]})), 'inversion matrix changed after the caller modified an earlier result'\n"},
                    ("imat-scribbled", al, d, sd))
                # the swapped binding matrix is built from the inversion matrix in some algebras
                o = c.observe(lambda: A.get_binding_matrix(algs.fl(v), swap_inputs=True))
                add(f"check_bmat {al} {c.zlist(v)} true {algs.tol_for(v, d=1)} {obs_t(o, algs.enc_mat)}",
                    {"op": "bmat", "alg": al, "v": v, "swap": True, "kind": "after-caller-modified-an-inversion-matrix", "obs": c.obs_json(o)},
                    ("bmat-after-imat-scribbled", al, tuple(v), sd), nontrivial=any(v))
            for fn, nm in ((lambda: A.bind(algs.fl(v), algs.fl(v)), "bind"), (lambda: A.invert(algs.fl(v)), "invert")):
                first = c.observe(fn)
                if first[0] == "ok":
                    scribble(first[1])
            bind_case_h = c.observe(lambda: A.bind(algs.fl(v), algs.fl(v)))
            add(f"check_bind {al} {c.zlist(v)} {c.zlist(v)} {algs.tol_for(v, v, d=d)} {obs_t(bind_case_h, algs.enc_vec)}",
                {"op": "bind", "alg": al, "a": v, "b": v, "kind": "after-caller-modified-the-previous-result", "obs": c.obs_json(bind_case_h)},
                ("bind-scribbled", al, tuple(v)), nontrivial=any(v))

    verdicts = c.coq_eval("C02", "cases", algs.IMPORTS, exprs, shard=120)
    for ok, m in zip(verdicts, meta):
        if ok:
            continue
        op = m["op"]
        P = algs.PRELUDE + f"A = {algs.alg_py(m['alg'])}\n"
        if op == "bind":
            snippet = P + f"a, b = np.array({m['a']}, float), np.array({m['b']}, float)\n" + SPEC_BIND + \
                "try:\n    got = A.bind(a, b)\nexcept Exception as e:\n    got = e\nprint('got', got, 'expected', exp)\n" \
                "assert (isinstance(got, Exception) and isinstance(exp, str) and type(got).__name__ == exp) or " \
                "(not isinstance(got, Exception) and not isinstance(exp, str) and np.allclose(got, exp, atol=1e-7 * (1 + np.abs(exp).max()))), 'bind deviates from the defining formula'\n"
        elif op == "bmat":
            snippet = P + f"v = np.array({m['v']}, float); swap = {m['swap']}\nM = A.get_binding_matrix(v, swap_inputs=swap)\n" \
                "d = len(v)\nfor k in range(d):\n    x = np.zeros(d); x[k] = 1\n" \
                "    direct = A.bind(v, x) if swap else A.bind(x, v)\n" \
                "    assert np.allclose(M @ x, direct, atol=1e-7 * (1 + np.abs(v).max())), 'binding matrix differs from direct binding'\n" \
                "assert False, 'binding matrix deviates from the model (kron/reshape layout) although it matches this tree\\'s bind'\n"
        elif op == "invert":
            snippet = P + f"v = np.array({m['v']}, float)\nprint(A.invert(v, sidedness={algs.SIDE_PY[m['side']]}))\nassert False, 'invert deviates from the model'\n"
        elif op == "imat":
            snippet = P + f"d = {m['d']}\nM = A.get_inversion_matrix(d, sidedness={algs.SIDE_PY[m['side']]})\n" \
                f"v = np.arange(1, d + 1, dtype=float)\nassert np.allclose(M @ v, A.invert(v, sidedness={algs.SIDE_PY[m['side']]})), 'inversion matrix differs from invert'\n" \
                "assert False, 'inversion matrix deviates from the model'\n"
        elif op == "valid":
            snippet = P + f"print(A.is_valid_dimensionality({m['d']}))\nassert False, 'is_valid_dimensionality deviates from the model'\n"
        else:
            snippet = P + f"a, b = np.array({m['a']}, float), np.array({m['b']}, float)\n" + (
                "assert np.allclose(A.superpose(a, b), a + b), 'superpose is not element-wise addition'\n" if len(m['a']) == len(m['b']) else
                "try:\n    r = A.superpose(a, b)\nexcept ValueError:\n    r = None\nassert r is None, ('superpose of unequal lengths returned', r)\n")
        snippet = m.pop("python", snippet)
        rep.violation(f"{m['alg']} {op}{' (' + m['kind'] + ')' if m.get('kind', '').startswith('after-') else ''} deviates from the algebra's published formula (model value differs)",
                      {"case": {k: v for k, v in m.items() if k != "obs"}, "observed": m["obs"], "python": snippet,
                       "expected": "Model/Hrr.v / Model/Vtb.v at Z (proved equal to the defining formula)"})


# independent statement of the defining formulas for replays (spec side, in Python)
SPEC_BIND = """
def spec_bind(A, a, b):
    d = len(a)
    if len(b) != d: return 'ValueError'
    name = type(A).__name__
    if name == 'HrrAlgebra':
        return np.array([sum(a[j] * b[(i - j) % d] for j in range(d)) for i in range(d)])
    s = int(round(d ** 0.5))
    if s * s != d: return 'ValueError'
    Am, Bm = a.reshape(s, s), b.reshape(s, s)
    return (np.sqrt(s) * (Am @ Bm.T if name == 'VtbAlgebra' else Am @ Bm)).flatten()
exp = spec_bind(A, a, b)
"""

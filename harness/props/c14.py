"""C14 correspondence: histories of action-selection blocks."""

import itertools

from harness import common as c

RULE = ("histories of top-level events {block with a body, plain `a >> b`, ifmax outside a block}; block bodies drawn from "
        "{ifmax with k routing effects and a zero / scalar / non-scalar condition, named or unnamed; ifmax with a non-routing "
        "effect; ifmax with an effect whose build fails; free-floating routing; exception; nested block}; exhaustive over "
        "a body alphabet to history length 2 (quick) / 3 (thorough; the third event from 8 observing events) and random to length 12 with up to 6 actions per block. "
        "After every event: the three process-wide switches, exception class, block.built, list(block.keys()), block[k] is "
        "the k-th utility, number of immediate connections made, and that no `>>` inside a block connected immediately. "
        "Non-trivial: history containing a failing block followed by another event; distinct = distinct history.")
ASSUMPTIONS = ["networks are built, never simulated; a failing build is provoked by routing a number into a pointer-valued sink"]

IMPORTS = "Model.ActionSel Tie.ActionSelTie"

BODIES = {
    "empty": [],
    "ok1": [("ifmax", None, "zero", ["route"])],
    "ok2named": [("ifmax", "a", "scalar", ["route"]), ("ifmax", None, "zero", ["route", "route"])],
    "ok-mixed-names": [("ifmax", None, "zero", ["route"]), ("ifmax", "a", "zero", ["route"]), ("ifmax", None, "scalar", []),
                       ("ifmax", "b", "zero", ["route"])],
    "ok-noeffects": [("ifmax", "x", "scalar", [])],
    "raise-first": [("raise",), ("ifmax", None, "zero", ["route"])],
    "raise-after": [("ifmax", None, "zero", ["route"]), ("raise",)],
    "free": [("ifmax", None, "zero", ["route"]), ("free",)],
    "free-only": [("free",)],
    "nested": [("ifmax", None, "zero", ["route"]), ("nested", [("ifmax", None, "zero", ["route"])])],
    "nested-caught": [("ifmax", None, "zero", ["route"]), ("nested-caught",), ("ifmax", "z", "zero", ["route"])],
    "nested-caught-first": [("nested-caught",), ("ifmax", None, "scalar", ["route", "route"])],
    "nonroute-falsy-first": [("ifmax", None, "zero", ["nonroute0", "route"])],
    "nonroute-falsy-named": [("ifmax", "n", "zero", ["nonroute0", "route"])],
    "nonroute-empty-list": [("ifmax", None, "scalar", ["nonroute[]", "route"])],
    "badcond": [("ifmax", None, "nonscalar", ["route", "route"])],
    "badcond-symbol": [("ifmax", None, "nonscalar-sym", ["route"])],
    "badcond-reinterpreted": [("ifmax", "q", "nonscalar-reint", ["route"])],
    "badcond-symbol-after": [("ifmax", None, "zero", ["route"]), ("ifmax", None, "nonscalar-sym", ["route", "route"])],
    "failed-route-caught": [("failed-route-caught",), ("ifmax", None, "zero", ["route"]), ("ifmax", "w", "scalar", ["route"])],
    "failed-route-caught-last": [("ifmax", None, "zero", ["route"]), ("failed-route-caught",)],
    "empty-name": [("ifmax", None, "zero", ["route"]), ("ifmax", "", "zero", ["route"]), ("ifmax", "b", "scalar", ["route"]), ("ifmax", None, "zero", [])],
    "badcond-after": [("ifmax", "k", "zero", ["route"]), ("ifmax", None, "nonscalar", ["route"])],
    "nonroute": [("ifmax", None, "zero", ["route", "nonroute"])],
    "raise-base-exception": [("ifmax", None, "zero", ["route"]), ("raise-base",)],
    "raise-base-exception-with-free": [("free",), ("raise-base",)],
    "named-nonroute-caught": [("ifmax", "first", "zero", ["route"]), ("ifmax-caught", "oops"), ("ifmax", "last", "scalar", ["route"])],
    "named-nonroute-caught-first": [("ifmax-caught", "a"), ("ifmax", "a", "zero", ["route"]), ("ifmax", None, "zero", ["route"])],
    "failbuild": [("ifmax", None, "zero", ["failfixed"])],
    "failbuild-after": [("ifmax", "u", "zero", ["route"]), ("ifmax", None, "zero", ["route", "failfixed"])],
}
EVENTS = [("block", k) for k in BODIES] + [("route",), ("ifmax-outside",)]


def coq_body(body):
    out = []
    for s in body:
        if s[0] == "ifmax":
            _, name, cond, effs = s
            nm = "None" if name is None else f"(Some {c.s(name)})"
            cd = {"zero": "CZero", "scalar": "CScalar", "nonscalar": "CNonScalar", "nonscalar-sym": "CNonScalar", "nonscalar-reint": "CNonScalar"}[cond]
            ef = c.lst([{"route": "ERoute", "nonroute": "ENonRoute", "nonroute0": "ENonRoute", "nonroute[]": "ENonRoute", "failfixed": "EFailingFixed"}[e] for e in effs])
            out.append(f"(SIfmax {nm} {cd} {ef})")
        elif s[0] == "free":
            out.append("SFree")
        elif s[0] in ("raise", "raise-base"):
            out.append("SRaise")          # any exception leaving the body, also one that is not an Exception subclass
        elif s[0] in ("nested-caught", "failed-route-caught", "ifmax-caught"):
            out.append("SNestedCaught")      # a statement whose error the body catches: nothing changes, the block goes on
        else:
            out.append(f"(SNested {coq_body(s[1])})")
    return c.lst(out)


def coq_event(ev, bodies):
    if ev[0] == "block":
        return f"(EvBlock {coq_body(bodies[ev[1]])})"
    return "EvRoute" if ev[0] == "route" else "EvIfmaxOutside"


class Boom(Exception):
    pass


class Halt(BaseException):
    """Leaves a block like KeyboardInterrupt / SystemExit / GeneratorExit do: not an Exception subclass."""


def run(rep, tier, rng):
    import nengo_spa as spa
    from nengo_spa.action_selection import ActionSelection
    from nengo_spa.connectors import ModuleInput, RoutedConnection
    from nengo_spa.exceptions import SpaActionSelectionError, SpaTypeError

    quick = tier == "quick"

    def classify(e):
        if e is None:
            return "None"
        if isinstance(e, SpaActionSelectionError):
            return "(Some ASelError)"
        if isinstance(e, SpaTypeError):
            return "(Some ATypeError)"
        if isinstance(e, (Boom, Halt)):
            return "(Some AOtherError)"
        return "(Some ABuildError)"

    SubSel = type("UserActionSelection", (ActionSelection,), {})     # a user-defined subclass of the block class

    def exec_history(hist, bodies, hidx=0):
        Sel = ActionSelection if hidx % 2 == 0 else SubSel
        peek = (hidx // 2) % 2 == 1
        obs, log = [], []
        with spa.Network() as net:
            s1, s2, s3 = spa.State(16), spa.State(16), spa.State(16)
            s32 = spa.State(32)
            sc = spa.Scalar()
            inside_flag = [False]
            rejected_names = []

            def nconn():
                return len(net.all_connections)

            def do_body(body, blk_holder):
                for st in body:
                    if st[0] == "ifmax":
                        _, name, cond, effs = st
                        args = []
                        for e in effs:
                            before = nconn()
                            if e == "route":
                                args.append(s1 >> s2)
                            elif e == "failfixed":
                                args.append(0.5 >> s3)
                            elif e == "nonroute0":
                                args.append(0)          # a falsy value that is not a routing statement
                            elif e == "nonroute[]":
                                args.append([])
                            else:
                                args.append(s1 * s2)
                                before = nconn()   # not a routing statement
                            if nconn() != before:
                                inside_flag[0] = True
                        cnd = {"zero": 0, "scalar": sc, "nonscalar": s1, "nonscalar-sym": spa.sym.A * spa.sym.B,
                               "nonscalar-reint": None}[cond]
                        if cond == "nonscalar-reint":
                            cnd = spa.reinterpret(s1)
                        if peek:
                            # looking at the block while it is still open (keys, length, membership) changes nothing
                            list(blk_holder.keys()), len(blk_holder), ("x" in blk_holder), [k for k in blk_holder]
                        if name is None:
                            spa.ifmax(cnd, *args)
                        else:
                            spa.ifmax(name, cnd, *args)
                        if peek:
                            list(blk_holder.keys()), list(blk_holder.items())
                    elif st[0] == "free":
                        before = nconn()
                        s2 >> s1
                        if nconn() != before:
                            inside_flag[0] = True
                    elif st[0] == "raise":
                        raise Boom()
                    elif st[0] == "raise-base":
                        raise Halt()
                    elif st[0] == "ifmax-caught":
                        # a named ifmax whose effect is not a routing statement; the body handles the error and goes on:
                        # nothing of the rejected call may remain (its name in particular)
                        rejected_names.append(st[1])
                        try:
                            spa.ifmax(st[1], 0.5, s1 * s2)
                        except SpaActionSelectionError:
                            pass
                    elif st[0] == "failed-route-caught":
                        try:
                            s1 >> s32          # 16-d into 32-d: type inference fails, handled by the body
                        except SpaTypeError:
                            pass
                    elif st[0] == "nested-caught":
                        try:
                            with ActionSelection():
                                pass
                        except SpaActionSelectionError:
                            pass
                    else:
                        with ActionSelection() as inner:
                            do_body(st[1], inner)

            for ev in hist:
                inside_flag[0] = False
                del rejected_names[:]
                err, blk, dconns = None, None, 0
                try:
                    if ev[0] == "block":
                        with Sel() as blk:
                            do_body(bodies[ev[1]], blk)
                    elif ev[0] == "route":
                        before = nconn()
                        s1 >> s3
                        dconns = nconn() - before
                    else:
                        # outside a block every form of the call is reported as "must be used within ... an ActionSelection instance",
                        # also forms that would be rejected inside a block for another reason
                        if hidx % 3 == 0:
                            spa.ifmax(0, s1 >> s2)
                        elif hidx % 3 == 1:
                            spa.ifmax("named", 0, s1 >> s2)
                        else:
                            spa.ifmax(s1, s1 >> s2)
                except (Exception, Halt) as e:  # noqa
                    err = e
                if ev[0] == "ifmax-outside" and isinstance(err, SpaActionSelectionError) and "ActionSelection instance" not in str(err):
                    err = RuntimeError("ifmax outside a block reported with another message: " + str(err)[:80])
                at_rest = ActionSelection.active is None and ModuleInput.routed_mode is False and len(RoutedConnection.free_floating) == 0
                if ev[0] == "ifmax-outside":
                    # the routing expression inside the failing call was connected immediately (not in a block)
                    pass
                built, keys, getok = "None", "[]", True
                if blk is not None:
                    built = f"(Some {c.b(blk.built)})"
                    ks = list(blk.keys())
                    keys = c.lst([f"(KName {c.s(k)})" if isinstance(k, str) else f"(KPos {int(k)})" for k in ks])
                    try:
                        import numpy as _np
                        pos_ok = all(blk[i] is blk._utilities[i] for i in range(len(blk))) and \
                            all(blk[_np.int64(i)] is blk._utilities[i] and blk[_np.int32(i)] is blk._utilities[i] for i in range(len(blk))) and \
                            all(blk[-1 - i] is blk._utilities[len(blk) - 1 - i] for i in range(len(blk)))
                        key_ok = len(ks) == len(blk) and all(blk[k] is blk._utilities[i] for i, k in enumerate(ks))
                        # membership agrees with keys(): a name whose ifmax call was rejected is not retrievable
                        key_ok = key_ok and all((nm_ in blk) == (nm_ in ks) for nm_ in rejected_names + ["no-such-action"])
                        getok = pos_ok and key_ok
                    except Exception:  # noqa
                        getok = False
                obs.append(f"(AObs {c.b(at_rest)} {classify(err)} {built} {keys} {c.b(getok)} {c.nat(dconns)} {c.b(inside_flag[0])})")
                log.append({"event": ev, "block_class": Sel.__name__, "keys_read_while_block_open": peek, "ifmax_outside_form": ["ifmax(0, a >> b)", "ifmax('named', 0, a >> b)", "ifmax(state, a >> b)"][hidx % 3],
                            "error": None if err is None else type(err).__name__, "at_rest": at_rest,
                            "built": None if blk is None else blk.built, "keys": None if blk is None else [str(k) for k in blk.keys()]})
                # reset process-wide state so that one bad history cannot poison the next (recorded above)
                ActionSelection.active = None
                ModuleInput.routed_mode = False
                RoutedConnection.free_floating.clear()
        return obs, log

    hists = []
    L = 2 if quick else 3
    # all histories of length <= 2; of length 3 (thorough): any two events followed by one of a few observing events (what a third
    # event can show is the residue of the first two)
    OBSERVERS = [("block", "ok1"), ("block", "ok2named"), ("block", "free"), ("block", "nested"), ("block", "raise-first"),
                 ("block", "failbuild"), ("route",), ("ifmax-outside",)]
    for n in range(1, L + 1):
        for h in itertools.product(EVENTS, repeat=n):
            if n == 3 and h[2] not in OBSERVERS:
                continue
            hists.append((list(h), BODIES))
    # random longer histories with random bodies (up to 6 actions)
    for _ in range(40 if quick else 400):
        bodies = {}
        for bi in range(4):
            body = []
            for k in range(rng.randint(0, 6)):
                r = rng.random()
                if r < 0.7:
                    body.append(("ifmax", rng.choice([None, None, f"n{k}"]), rng.choice(["zero", "scalar"]),
                                 ["route"] * rng.randint(0, 2)))
                elif r < 0.78:
                    body.append(("free",))
                elif r < 0.84:
                    body.append(("raise",))
                elif r < 0.9:
                    body.append(("ifmax", None, "nonscalar", ["route"]))
                elif r < 0.95:
                    body.append(("ifmax", None, "zero", ["route", "failfixed"]))
                else:
                    body.append(("nested", [("ifmax", None, "zero", ["route"])]))
            bodies[f"r{bi}"] = body
        evs = [("block", f"r{rng.randrange(4)}") if rng.random() < 0.7 else rng.choice([("route",), ("ifmax-outside",)])
               for _ in range(rng.randint(3, 12))]
        hists.append((evs, bodies))

    exprs, cases = [], []
    for hidx_, (hist, bodies) in enumerate(hists):
        obs, log = exec_history(hist, bodies, hidx_)
        exprs.append(f"history_first_bad {c.lst([coq_event(e, bodies) for e in hist])} {c.lst(obs)}")
        cases.append((hist, bodies, log))
        failing = [i for i, l in enumerate(log) if l["error"]]
        rep.case(tuple(map(str, hist)) + (str(sorted(bodies.items())) if bodies is not BODIES else "",),
                 nontrivial=bool(failing) and failing[0] < len(hist) - 1,
                 sample={"history": [str(e) for e in hist], "observed": log} if len(hist) == 3 and failing else None)
        rep.count(f"history_len_{min(len(hist), 4)}{'+' if len(hist) >= 4 else ''}")
    firsts = c.coq_eval("C14", "cases", IMPORTS, exprs, ty="nat", shard=150)
    for fb, (hist, bodies, log) in zip(firsts, cases):
        if fb >= len(hist):
            continue
        ev = hist[fb]
        key = None
        if ev[0] == "block":
            body = bodies[ev[1]]
            nm = [s[1] for s in body if s[0] == "ifmax"]
            ok_names = [x for x in nm]
            # unnamed action after a named one: the coded __iter__ loop miscounts
            if log[fb]["built"] and any(n is not None for n in ok_names) and log[fb]["error"] is None:
                first_named = next(i for i, n in enumerate(ok_names) if n is not None)
                if any(n is None for n in ok_names[first_named + 1:]) or (first_named > 0 and sum(n is not None for n in ok_names) > 1):
                    key = "action-selection-keys-miscounted"
        rep.violation(f"history {[str(e) for e in hist[:fb + 1]]}: event {fb} ({ev}) leaves residue or reports the wrong outcome: {log[fb]}",
                      {"case": {"history": [list(e) for e in hist[:fb + 1]], "bodies": {k: v for k, v in bodies.items() if any(e[0] == 'block' and e[1] == k for e in hist[:fb + 1])}},
                       "observed": log[:fb + 1], "finding_key": key,
                       "python": "# replay: run the listed events in one spa.Network (see harness/props/c14.py exec_history)\n"
                                 "assert False, 'action-selection block outcome / keys / global switches differ from the specification'\n",
                       "expected": "Model/ActionSel.v run_event (proved: every history ends at rest, outcomes independent of history, keys one per action)"})

"""C09 correspondence: vocabulary histories against the state machine model."""

import itertools

import numpy as np

from harness import algs
from harness import common as c

RULE = ("histories over a small alphabet: add (valid / invalid / reserved / duplicate name; own, vocabulary-less, foreign-"
        "vocabulary, foreign-algebra, wrong-length pointer; raw vector), item access, membership, create_pointer, parse "
        "(known / unknown / invalid names, malformed text), populate (single, multiple, assignment items incl. failing "
        "ones), create_subset, write attempts through arrays handed in or out; bounded-exhaustive to length 2 (quick) / 3 "
        "(thorough) and random to length 40; strict and non-strict; three algebras; scripted integer pointer generator. "
        "After every step keys, vectors, len and membership of all alphabet and special names are compared with the model "
        "in Coq. Non-trivial: at least one successful addition; distinct = distinct (configuration, history).")
ASSUMPTIONS = ["the pointer generator is a scripted stream shared with the model (Model/Vocab.v script_vec); max_similarity is "
               "set high so that create_pointer accepts the first candidate (selection is C10)",
               "parse is modelled by its state effect (name lookups in source order); parsed values are C10"]

IMPORTS = "Model.Vocab Tie.VocabTie"
NAMES_VALID = ["A", "B", "Cc", "D_1"]
NAMES_INVALID = ["a", "1A", "", "A-B", "Ab c", "Ab!", "B+", "A.b", " Cc", "B ", "\tD_1"]
NAMES_RESERVED = ["Identity", "None", "Zero", "True", "AbsorbingElement"]
ALPHABET = NAMES_VALID + NAMES_INVALID[:3] + NAMES_RESERVED


def script_vec(d, i):
    return [((i + 1) * (j + 2) * 7 + i * i) % 11 - 5 for j in range(d)]


EXN = {"SpaParseError": "VSpaParseError", "ValidationError": "VValidationError", "KeyError": "VKeyError",
       "ValueError": "VValueError", "SyntaxError": "VSyntaxError", "NameError": "VNameError"}


def coq_ptr(vec, owner, same_alg):
    return f"(Ptr {c.zlist(vec)} {owner} {c.b(same_alg)})"


def gen_ops(rng):
    """The op alphabet: (python-level description, coq term)."""
    ops = []
    for k in NAMES_VALID[:3] + NAMES_INVALID[:2] + NAMES_RESERVED[:2]:
        for kind in ("own", "novocab", "raw"):
            ops.append(("add", k, kind))
    for k in NAMES_INVALID[2:]:
        ops.append(("add", k, "own"))       # valid prefix, illegal tail; empty name
    ops += [("add", "A", "foreign"), ("add", "B", "foreign-alg"), ("add", "B", "foreign-empty"), ("add", "Cc", "foreign-empty"), ("add", "A", "wrong-length"), ("add", "D_1", "wrong-length-raw")]
    for k in NAMES_VALID + NAMES_INVALID + NAMES_RESERVED[:3] + ["__tracebackhide__"]:
        ops.append(("get", k))
    ops += [("contains", "A"), ("create_pointer",)]
    ops += [("parse", ["A"]), ("parse", ["A", "B"]), ("parse", ["B", "Cc", "A"]), ("parse", ["a"]), ("parse", ["Identity", "A"]),
            ("parse-malformed",)]
    ops += [("populate", [("name", "A")]), ("populate", [("name", "B"), ("name", "Cc")]),
            ("populate", [("name", "A"), ("name", "a"), ("name", "B")]),
            ("populate", [("assign", "D_1", ["A", "B"])]), ("populate", [("name", "Cc"), ("assign", "B", ["Cc"])]),
            ("populate", [("name", "Identity")]), ("populate", [("assign", "A", ["Zero"])]),
            # "Name.method()": a transformed fresh pointer (copy() keeps the scripted integer vector)
            ("populate", [("method", "B", "copy()")]), ("populate", [("name", "A"), ("method", "Cc", "copy()"), ("name", "B")])]
    ops += [("subset", ["A"]), ("subset", ["A", "B"]), ("subset", ["Cc", "Identity"]), ("subset", [])]
    ops += [("mutate-in",), ("mutate-vectors",), ("mutate-item",)]
    return ops


def run(rep, tier, rng):
    import nengo_spa as spa
    from nengo_spa.semantic_pointer import SemanticPointer

    quick = tier == "quick"
    OPS = gen_ops(rng)
    d = 4
    other_alg = {"AHrr": "AVtb", "AVtb": "ATvtb", "ATvtb": "AHrr"}
    exprs, meta = [], []

    def run_history(al, strict, hist):
        A = algs.alg_obj(al)
        B = algs.alg_obj(other_alg[al])
        counter = [0]

        def gen():
            while True:
                v = script_vec(d, counter[0])
                counter[0] += 1
                yield np.array(v, dtype=float)

        voc = spa.Vocabulary(d, strict=strict, max_similarity=1e9, pointer_gen=gen(), algebra=A)
        foreign = spa.Vocabulary(d, algebra=A)
        foreign.populate("X")
        foreign_empty = spa.Vocabulary(d, algebra=A)
        cops, snaps, pylog = [], [], []
        handed_in = []
        for op in hist:
            err = None
            kind = op[0]
            try:
                if kind == "add":
                    _, k, how = op
                    vec = [rng.randint(-3, 3) for _ in range(d)]
                    if how == "own":
                        p = SemanticPointer(algs.fl(vec), vocab=voc); cp = coq_ptr(vec, "Own", True)
                    elif how == "novocab":
                        p = SemanticPointer(algs.fl(vec), algebra=A); cp = coq_ptr(vec, "NoVocab", True)
                    elif how == "raw":
                        p = algs.fl(vec); handed_in.append(p); cp = coq_ptr(vec, "Own", True)
                    elif how == "foreign":
                        vec = [int(x) for x in np.round(foreign["X"].v * 0)]
                        p = foreign["X"]; cp = coq_ptr(vec, "ForeignVocab", True)
                    elif how == "foreign-empty":
                        # a pointer of another vocabulary that has no keys (an empty vocabulary is falsy in Python)
                        p = SemanticPointer(algs.fl(vec), vocab=foreign_empty); cp = coq_ptr(vec, "ForeignVocab", True)
                    elif how == "foreign-alg":
                        p = SemanticPointer(algs.fl(vec), algebra=B); cp = coq_ptr(vec, "NoVocab", False)
                    elif how == "wrong-length":
                        vec = vec + [1]
                        p = SemanticPointer(algs.fl(vec), algebra=A); cp = coq_ptr(vec, "NoVocab", True)
                    else:
                        vec = vec[:-1]
                        p = algs.fl(vec); cp = coq_ptr(vec, "Own", True)
                    cops.append(f"(OAdd {c.s(k)} {cp})")
                    pylog.append(f"voc.add({k!r}, <{how} pointer {vec}>)")
                    voc.add(k, p)
                elif kind == "get":
                    cops.append(f"(OGet {c.s(op[1])})"); pylog.append(f"voc[{op[1]!r}]")
                    voc[op[1]]
                elif kind == "contains":
                    cops.append(f"(OContains {c.s(op[1])})"); pylog.append(f"{op[1]!r} in voc")
                    op[1] in voc
                elif kind == "create_pointer":
                    cops.append("OCreatePointer"); pylog.append("voc.create_pointer()")
                    voc.create_pointer()
                elif kind == "parse":
                    cops.append(f"(OParse {c.lst([c.s(n) for n in op[1]])})")
                    text = " + ".join(op[1])
                    pylog.append(f"voc.parse({text!r})")
                    voc.parse(text)
                elif kind == "parse-malformed":
                    cops.append("OMalformedParse"); pylog.append("voc.parse('A +* )')")
                    voc.parse("A +* )")
                elif kind == "populate":
                    items, parts = [], []
                    for it in op[1]:
                        if it[0] == "name":
                            items.append(f"(IName {c.s(it[1])})"); parts.append(it[1])
                        elif it[0] == "method":
                            items.append(f"(IName {c.s(it[1])})"); parts.append(f"{it[1]}.{it[2]}")
                        else:
                            # the value: sum of the named vectors as the implementation will compute it
                            items.append(("assign", it[1], it[2])); parts.append(f"{it[1]} = {' + '.join(it[2])}")
                    text = "; ".join(parts)
                    pylog.append(f"voc.populate({text!r})")
                    # assignment values are read back from the implementation after the call
                    pending = (items, op[1])
                    cops.append(pending)
                    voc.populate(text)
                elif kind == "subset":
                    cops.append(f"(OSubset {c.lst([c.s(n) for n in op[1]])})"); pylog.append(f"voc.create_subset({op[1]!r})")
                    voc.create_subset(op[1])
                elif kind == "mutate-in":
                    cops.append("ONoop"); pylog.append("<write into every raw array that was passed to add>")
                    for arr in handed_in:
                        arr[:] = 77.0
                elif kind == "mutate-vectors":
                    cops.append("ONoop"); pylog.append("voc.vectors[...] = 77")
                    try:
                        voc.vectors[...] = 77.0
                    except ValueError:
                        pass
                elif kind == "mutate-item":
                    cops.append("ONoop"); pylog.append("voc[first key].v[:] = 77")
                    ks = list(voc.keys())
                    if ks:
                        try:
                            voc[ks[0]].v[:] = 77.0
                        except ValueError:
                            pass
            except Exception as e:  # noqa
                err = type(e).__name__
            # resolve a pending populate: assignment values = what the implementation stored (or would store)
            if isinstance(cops[-1], tuple):
                items, raw = cops[-1]
                out = []
                for it in items:
                    if isinstance(it, str):
                        out.append(it)
                    else:
                        _, k, names = it
                        if k in voc._key2idx and all(n in voc for n in names):
                            val = [int(round(x)) for x in voc[k].v]
                        else:
                            val = [0] * d
                        out.append(f"(IAssign {c.s(k)} {c.lst([c.s(n) for n in names])} {c.zlist(val)})")
                cops[-1] = f"(OPopulate {c.lst(out)})"
            keys = list(voc.keys())
            vecs = [[int(round(x)) for x in row] for row in voc.vectors]
            exact = all(float(int(round(x))) == x for row in voc.vectors for x in row)
            if not exact:
                vecs = [[12345] * d]
            cont = [k in voc for k in ALPHABET]
            e = "None" if err is None else f"(Some {EXN.get(err, 'VValueError')})"
            snaps.append(f"(Snap {e} {c.lst([c.s(k) for k in keys])} {c.zmat(vecs)} {c.nat(len(voc))} {c.lst([c.b(x) for x in cont])})")
            # direct consistency of the implementation's own observers (property level)
            if not (len(voc) == len(keys) == len(voc.vectors) and list(iter(voc)) == keys):
                rep.violation(f"vocabulary observers disagree after {pylog}",
                              {"case": {"alg": al, "strict": strict, "history": pylog},
                               "observed": {"len": len(voc), "keys": keys, "rows": len(voc.vectors)}})
        return cops, snaps, pylog

    hists = []
    n_ex = 1 if quick else 2
    base_ops = OPS
    for h in itertools.product(range(len(base_ops)), repeat=n_ex):
        hists.append([base_ops[i] for i in h])
    # length-2 exhaustive over a reduced alphabet in quick mode, full alphabet in thorough mode handled above
    if quick:
        red = [o for o in OPS if o[0] in ("add", "get", "parse", "populate", "subset", "mutate-in")][::2]
        for h in itertools.product(range(len(red)), repeat=2):
            hists.append([red[i] for i in h])
    for _ in range(60 if quick else 600):
        hists.append([rng.choice(OPS) for _ in range(rng.randint(3, 40))])

    cases = []
    for hi, hist in enumerate(hists):
        al = algs.ALGS[hi % 3]
        strict = (hi // 3) % 2 == 0
        cops, snaps, pylog = run_history(al, strict, hist)
        cases.append((al, strict, cops, snaps, pylog))
        exprs.append(f"history_first_diff {c.nat(d)} {c.b(strict)} {c.lst([c.s(k) for k in ALPHABET])} {c.lst(cops)} {c.lst(snaps)}")
        rep.case((al, strict, tuple(pylog)), nontrivial=any("add" in p or "populate" in p for p in pylog),
                 sample={"alg": al, "strict": strict, "history": pylog} if 3 <= len(pylog) <= 5 else None)
        rep.count(f"history_len_{min(len(hist), 5)}{'+' if len(hist) >= 5 else ''}")
        for o in hist:
            rep.count("op_" + o[0])
    # ---- other entry points that receive the vocabulary as a *target*: only populate=True may add keys ---------
    import warnings
    for al in algs.ALGS:
        for strict in (True, False):
            for populate, keys, via in [(pp, kk, vv) for pp in (None, False, True) for kk in (None, [], (), ["B"], ["A"], ("Cc", "A"))
                                        for vv in ("transform_to", "pointer.translate", "spa.translate")]:
                A = algs.alg_obj(al)
                voc = spa.Vocabulary(d, strict=strict, algebra=A, pointer_gen=np.random.RandomState(1))
                voc.add("A", np.array(script_vec(d, 0), float))
                src = spa.Vocabulary(d, strict=True, algebra=A, pointer_gen=np.random.RandomState(2))
                for i, k in enumerate(["A", "B", "Cc"]):
                    src.add(k, np.array(script_vec(d, i + 3), float))
                before = (list(voc.keys()), np.array(voc.vectors, copy=True))
                with warnings.catch_warnings():
                    warnings.simplefilter("ignore")
                    kwk = {} if keys is None else {"keys": keys}
                    o = c.outcome({"transform_to": lambda: src.transform_to(voc, populate=populate, **kwk),
                                   "pointer.translate": lambda: src["A"].translate(voc, populate=populate, **kwk),
                                   "spa.translate": lambda: spa.translate(src["B"], voc, populate=populate, **kwk)}[via])
                after = (list(voc.keys()), np.asarray(voc.vectors))
                want_keys = sorted(set(["A"]) | set(["A", "B", "Cc"] if keys is None else keys))
                rep.case(("as-target", al, strict, populate, None if keys is None else tuple(keys), via))
                rep.count("op_transform_to_into")
                unchanged = after[0] == before[0] and np.array_equal(after[1], before[1])
                prefix_ok = after[0][:len(before[0])] == before[0] and np.array_equal(after[1][:len(before[0])], before[1])
                if populate is not True and not unchanged:
                    rep.violation(f"{via}(target, populate={populate}, keys={keys!r}) changed the target vocabulary: keys {before[0]} -> {after[0]} ({al}, strict={strict})",
                                  {"case": {"alg": al, "strict": strict, "populate": populate, "keys": None if keys is None else list(keys)},
                                   "python": "import numpy as np, nengo_spa as spa\nt = spa.Vocabulary(4); t.populate('A')\ns = spa.Vocabulary(4); s.populate('A; B')\n"
                                             f"import warnings; warnings.simplefilter('ignore'); s.transform_to(t, populate={populate})\nassert list(t.keys()) == ['A'], list(t.keys())\n"})
                if populate is True and not (prefix_ok and sorted(after[0]) == want_keys and len(voc) == len(after[1]) == len(want_keys)):
                    rep.violation(f"{via}(target, populate=True, keys={keys!r}) did not append exactly the missing requested keys: {before[0]} -> {after[0]}",
                                  {"case": {"alg": al, "strict": strict, "keys": None if keys is None else list(keys), "via": via},
                                   "python": "import numpy as np, nengo_spa as spa\nt = spa.Vocabulary(4); t.populate('A')\ns = spa.Vocabulary(4); s.populate('A; B; Cc')\n"
                                             + {"transform_to": "s.transform_to(t", "pointer.translate": "s['A'].translate(t", "spa.translate": "spa.translate(s['B'], t"}[via] +
                                             f", populate=True, keys={None if keys is None else list(keys)!r})\nassert sorted(t.keys()) == {want_keys!r}, list(t.keys())\n"})

    # ---- the vocabulary as the *source* of transform_to / create_subset: never changed -----------------------------
    for al in algs.ALGS:
        for strict in (True, False):
            for populate, keys in itertools.product((None, False, True), (None, ["A", "Cc"], [])):
                A = algs.alg_obj(al)
                voc = spa.Vocabulary(d, strict=strict, algebra=A, pointer_gen=np.random.RandomState(1))
                for i, k in enumerate(["A", "B", "Cc"]):
                    voc.add(k, np.array(script_vec(d, i), float))
                tgt = spa.Vocabulary(d, strict=True, algebra=A, pointer_gen=np.random.RandomState(2))
                tgt.add("A", np.array(script_vec(d, 7), float))
                before = (list(voc.keys()), list(voc), np.array(voc.vectors, copy=True), len(voc))
                with warnings.catch_warnings():
                    warnings.simplefilter("ignore")
                    c.outcome(lambda: voc.transform_to(tgt, populate=populate, keys=keys))
                    c.outcome(lambda: voc.create_subset(["A"]))
                after = (list(voc.keys()), list(voc), np.asarray(voc.vectors), len(voc))
                rep.case(("as-source", al, strict, populate, repr(keys)))
                rep.count("op_transform_to_from")
                if not (after[0] == before[0] and after[1] == before[1] and np.array_equal(after[2], before[2]) and after[3] == before[3]):
                    rep.violation(f"transform_to(populate={populate}, keys={keys}) / create_subset changed the SOURCE vocabulary: keys {before[0]} -> {after[0]} ({al}, strict={strict})",
                                  {"case": {"alg": al, "strict": strict, "populate": populate, "keys": keys},
                                   "python": "import warnings, nengo_spa as spa\nwarnings.simplefilter('ignore')\ns = spa.Vocabulary(16); s.populate('A; B; C')\n"
                                             "t = spa.Vocabulary(16); t.populate('A')\ns.transform_to(t)\nassert list(s.keys()) == ['A', 'B', 'C'], list(s.keys())\n"})


    # ---- a subset is a vocabulary of its own: whatever keys were selected, growing one never shows in the other ------------------
    for al in algs.ALGS:
        for sel in (["A", "B", "Cc"], ["A"], ["Cc", "A"], ["B", "Cc"]):
            A = algs.alg_obj(al)
            voc = spa.Vocabulary(d, algebra=A, pointer_gen=np.random.RandomState(1))
            for i, k in enumerate(["A", "B", "Cc"]):
                voc.add(k, np.array(script_vec(d, i), float))
            sub = voc.create_subset(sel)
            rep.case(("subset-independent", al, tuple(sel)))
            rep.count("op_subset_independent")
            problems = []
            if list(sub.keys()) != sel or not all(np.array_equal(sub[k].v, voc[k].v) for k in sel):
                problems.append(f"subset holds {list(sub.keys())}")
            sub.add("New1", np.array(script_vec(d, 5), float))
            if list(voc.keys()) != ["A", "B", "Cc"] or len(voc) != 3 or len(voc.vectors) != 3 or "New1" in voc:
                problems.append(f"adding to the subset changed the original: keys {list(voc.keys())}, len {len(voc)}")
            voc.add("New2", np.array(script_vec(d, 6), float))
            if list(sub.keys()) != sel + ["New1"] or "New2" in sub or len(sub.vectors) != len(sel) + 1:
                problems.append(f"adding to the original changed the subset: keys {list(sub.keys())}")
            if problems:
                rep.violation(f"create_subset({sel}) of a vocabulary with keys A, B, Cc is not an independent vocabulary ({al}): " + "; ".join(problems),
                              {"case": {"alg": al, "keys": sel},
                               "python": "import numpy as np, nengo_spa as spa\nv = spa.Vocabulary(16); v.populate('A; B; Cc')\n"
                                         f"s = v.create_subset({sel!r}); s.populate('New1')\nassert list(v.keys()) == ['A', 'B', 'Cc'], list(v.keys())\n"
                                         f"v.populate('New2')\nassert list(s.keys()) == {sel + ['New1']!r}, list(s.keys())\n"})

    firsts = c.coq_eval("C09", "cases", IMPORTS, exprs, ty="nat", shard=60)
    for fd, (al, strict, cops, snaps, pylog) in zip(firsts, cases):
        if fd == len(cops):
            continue
        key = None
        step = pylog[fd] if fd < len(pylog) else "?"
        if "wrong-length" in step:
            key = "add-wrong-length-corrupts"
        rep.violation(f"vocabulary state diverges from the append-only map at step {fd}: {step} ({al}, strict={strict})",
                      {"case": {"alg": al, "strict": strict, "history": pylog[:fd + 1]}, "observed_snapshot": snaps[fd] if fd < len(snaps) else None,
                       "finding_key": key,
                       "python": "# replay: apply the listed calls to spa.Vocabulary(4, strict=%s, algebra=%s) with the scripted pointer generator\n"
                                 "assert False, 'state after the last call differs from exactly the successful additions in order'\n" % (strict, algs.alg_py(al)),
                       "expected": "Model/Vocab.v run (proved: invariant, append-only, refinement of the list of successful additions)"})

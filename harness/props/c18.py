"""C18 correspondence: vocabulary identity across nesting trees, reproducibility."""

import itertools

import numpy as np

from harness import common as c

RULE = ("nesting trees of nengo.Network / spa.Network containers (optional explicit vocabs, optional seed) with SPA modules "
        "given integer dimensionalities 16/32: all shapes up to 4 nodes (quick) / 5 nodes (thorough) over a reduced label set "
        "plus random trees to depth 4 and 12 nodes; two models are built one after another in one process and the partition "
        "of all module occurrences by `is` on .vocab is compared with the model's (map id, d) partition in Coq; same script "
        "+ same seeds is built twice and the auto-created pointers compared, a third build uses other seeds; rejected "
        "dimensionality arguments. Non-trivial: at least two modules; distinct = distinct (tree pair).")
ASSUMPTIONS = ["'the seed' is the seed argument of the network whose construction creates the vocabulary map (DESIGN.md C18 reading)",
               "different seed => different pointers is tested, not proved (it is a statement about NumPy's generator)"]
IMPORTS = "Model.NetworkCtx Tie.NetworkCtxTie"


def coq_tree(t):
    if t[0] == "M":
        return f"(Module {t[1]})"
    ch = "FNil"
    for x in reversed(t[-1]):
        ch = f"(FCons {coq_tree(x)} {ch})"
    if t[0] == "P":
        return f"(Plain {ch})"
    return f"(Spa {c.b(t[1])} {'None' if t[2] is None else f'(Some {t[2]})'} {ch})"


STYLE = [0]     # 1: containers are a user-defined subclass of spa.Network and seeds are NumPy integers (both are legitimate ways
#                      to write the same model: nothing about vocabulary sharing or reproducibility may depend on them)
_SUB = []


DEFER = [0]     # 1: every container is created before any of its siblings is populated and entered again later
#                      (`net = spa.Network(); ...; with net: ...`): the same model written in another order


def make_container(t, seed_shift):
    import nengo_spa as spa
    if not _SUB:
        _SUB.append(type("UserNetwork", (spa.Network,), {}))
    kw = {}
    if t[1]:
        # an explicitly supplied map for the subtree: one that already holds a vocabulary, or a still empty one
        from nengo_spa.vocabulary import VocabularyMap
        kw["vocabs"] = [spa.Vocabulary(16)] if STYLE[0] == 0 else VocabularyMap()
    if t[2] is not None:
        kw["seed"] = t[2] + seed_shift if STYLE[0] == 0 else np.int64(t[2] + seed_shift)
    return (spa.Network if STYLE[0] == 0 else _SUB[0])(**kw)


def build_children(children, out, seed_shift):
    if not DEFER[0]:
        for x in children:
            build(x, out, seed_shift)
        return
    pre = [make_container(x, seed_shift) if x[0] == "S" else None for x in children]
    for x, net in zip(children, pre):
        if net is None:
            build(x, out, seed_shift)
        else:
            with net:
                build_children(x[3], out, seed_shift)


def build(t, out, seed_shift=0):
    import nengo
    import nengo_spa as spa
    if t[0] == "M":
        st = spa.State(t[1])
        out.append(st.vocab)
    elif t[0] == "P":
        with nengo.Network():
            build_children(t[1], out, seed_shift)
    else:
        with make_container(t, seed_shift):
            build_children(t[3], out, seed_shift)


def shapes(n, depth):
    """All trees with exactly n nodes over the reduced label set."""
    if n == 1:
        return [("M", 16), ("M", 32)]
    res = []
    if depth == 0:
        return []
    for kind in ("P", "S", "Sx", "Ss", "S0"):
        for parts in compositions(n - 1):
            for ch in itertools.product(*[shapes(k, depth - 1) for k in parts]):
                if kind == "P":
                    res.append(("P", list(ch)))
                elif kind == "S":
                    res.append(("S", False, None, list(ch)))
                elif kind == "Sx":
                    res.append(("S", True, None, list(ch)))
                elif kind == "S0":
                    res.append(("S", False, 0, list(ch)))      # 0 is a seed like any other
                else:
                    res.append(("S", False, 7, list(ch)))
    return res


def compositions(n):
    if n == 0:
        return [[]]
    out = []
    for first in range(1, n + 1):
        for rest in compositions(n - first):
            out.append([first] + rest)
    return out


def rand_tree(rng, depth, budget):
    if depth == 0 or budget[0] <= 1 or rng.random() < 0.3:
        budget[0] -= 1
        return ("M", rng.choice([16, 16, 32]))
    budget[0] -= 1
    n = rng.randint(1, 3)
    ch = [rand_tree(rng, depth - 1, budget) for _ in range(n) if budget[0] > 0]
    if not ch:
        return ("M", 16)
    if rng.random() < 0.4:
        return ("P", ch)
    return ("S", rng.random() < 0.25, rng.choice([None, 0, 3, 11]), ch)


def count_modules(t):
    return 1 if t[0] == "M" else sum(count_modules(x) for x in t[-1])


def run(rep, tier, rng):
    import nengo
    import nengo_spa as spa
    from nengo.exceptions import ValidationError

    quick = tier == "quick"
    trees = []
    for n in range(1, (4 if quick else 5) + 1):
        trees += shapes(n, 3)
    trees = [t for t in trees if count_modules(t) >= 2 or t[0] == "M"]
    if quick:
        rng.shuffle(trees)
        trees = sorted(trees[:400], key=lambda t: -count_modules(t))[:250]
    for _ in range(40 if quick else 400):
        trees.append(rand_tree(rng, 4, [12]))
    exprs, cases, seeded_q = [], [], []
    for i, t1 in enumerate(trees):
        t2 = trees[(i * 7 + 3) % len(trees)]
        o1, o2 = [], []
        STYLE[0] = i % 2
        DEFER[0] = (i // 2) % 2
        try:
            build(t1, o1)
            build(t2, o2)
        except Exception as e:  # noqa
            rep.violation(f"building the nesting tree raised {type(e).__name__}: {e}", {"case": {"tree": repr(t1)}})
            DEFER[0] = 0
            continue
        DEFER[0] = 0
        ids = {}
        lab = lambda v: ids.setdefault(id(v), len(ids))  # noqa
        l1, l2 = [lab(v) for v in o1], [lab(v) for v in o2]
        exprs.append(f"check_models {coq_tree(t1)} {coq_tree(t2)} {c.lst([str(x) for x in l1])} {c.lst([str(x) for x in l2])}")
        cases.append((t1, t2, l1, l2, (i % 2, (i // 2) % 2)))
        rep.case((repr(t1), repr(t2)), nontrivial=count_modules(t1) > 1,
                 sample={"tree": repr(t1), "vocabulary_labels": l1} if 3 <= count_modules(t1) <= 4 and len(repr(t1)) < 120 else None)
        rep.count("tree_pair")
        rep.count(f"modules_{min(count_modules(t1), 6)}")
    verdicts = c.coq_eval("C18", "cases", IMPORTS, exprs, shard=200)
    for ok, (t1, t2, l1, l2, sty) in zip(verdicts, cases):
        if not ok:
            rep.violation(f"modules of {t1!r} (then {t2!r}) are partitioned into vocabularies {l1} / {l2}, not one per dimensionality per model",
                          {"case": {"tree1": repr(t1), "tree2": repr(t2), "containers": "user-defined subclass of spa.Network, NumPy integer seeds" if sty[0] else "spa.Network, int seeds",
                                    "construction_order": "containers created first and entered again later (net = spa.Network(); ...; with net: ...)" if sty[1] else "nested with-blocks"},
                           "observed": {"labels1": l1, "labels2": l2},
                           "python": "# see harness/props/c18.py build(): M = spa.State(d), P = nengo.Network, S = spa.Network(explicit vocabs, seed)\n"
                                     "assert False, 'vocabulary identity partition differs from one-vocabulary-per-dimensionality-per-model'\n",
                           "expected": "Model/NetworkCtx.v build_model (proved: one map per model, fresh per model)"})

    # ---- reproducibility from the seed --------------------------------------------
    def has_seed(t):
        return t[0] == "S" and t[2] is not None or (t[0] != "M" and any(has_seed(x) for x in t[-1]))
    seeded_trees = [t for t in trees if has_seed(t)]
    # both kinds of root (a plain nengo.Network root takes the master-map branch), and the seed 0
    n_each = 20 if quick else 150
    rtrees = [t for t in seeded_trees if t[0] == "P"][:n_each] + [t for t in seeded_trees if t[0] == "S"][:n_each] \
        + [t for t in seeded_trees if ", 0, " in repr(t)][:n_each // 2]
    rtrees += [("P", [("S", False, 7, [("M", 16), ("P", [("M", 32)])]), ("M", 16)]), ("P", [("P", [("S", False, 11, [("M", 16)])])])]
    qs, qmeta = [], []
    for ti_, t in enumerate(rtrees):
        runs = []
        STYLE[0] = ti_ % 2
        for shift in (0, 0, 1000):
            out = []
            build(t, out, shift)
            vecs = []
            for v in out:
                try:
                    vecs.append(np.concatenate([v["A"].v, v["B"].v]))
                except Exception:  # noqa: strict explicit vocabularies
                    vecs.append(None)
            runs.append(vecs)
        for i in range(len(runs[0])):
            qs.append(f"occ_seeded_at {coq_tree(t)} {i}")
            qmeta.append((t, i, runs[0][i], runs[1][i], runs[2][i], ti_ % 2))
    STYLE[0] = 0
    seeded = c.coq_eval("C18", "seeded", IMPORTS, qs, shard=400)
    for sd, (t, i, a, b_, c3, sty) in zip(seeded, qmeta):
        if not sd or a is None:
            rep.count("repro_not_claimed_unseeded_or_explicit")
            continue
        rep.case(("repro", repr(t), i))
        rep.count("repro_checked")
        if b_ is None or not np.array_equal(a, b_):
            rep.violation(f"same script and seed gave different pointers for module {i} of {t!r}" + (" (spa.Network subclass containers, NumPy integer seeds)" if sty else ""),
                          {"case": {"tree": repr(t), "module": i, "style": sty}, "python": "assert False, 'pointers differ between two builds with the same seed'\n"})
        if c3 is not None and np.array_equal(a, c3):
            rep.violation(f"a different seed gave identical pointers for module {i} of {t!r}",
                          {"case": {"tree": repr(t), "module": i}})

    # ---- rejected arguments -----------------------------------------------------------
    # ---- every module class honours an explicitly supplied vocabulary map ------------------------------------------
    from nengo_spa.vocabulary import VocabularyMap
    CLASSES = {
        "State": lambda vm: spa.State(16, vocabs=vm), "Bind": lambda vm: spa.Bind(16, vocabs=vm), "Compare": lambda vm: spa.Compare(16, vocabs=vm),
        "Superposition": lambda vm: spa.Superposition(2, 16, vocabs=vm),
        "Transcode": lambda vm: spa.Transcode(input_vocab=16, output_vocab=16, vocabs=vm),
        "ThresholdingAssocMem": lambda vm: spa.ThresholdingAssocMem(0.3, 16, mapping=["A"], vocabs=vm),
        "WTAAssocMem": lambda vm: spa.WTAAssocMem(0.3, 16, mapping=["A"], vocabs=vm),
        "IAAssocMem": lambda vm: spa.IAAssocMem(16, mapping=["A"], vocabs=vm),
    }
    for cname, mkmod in CLASSES.items():
        for shared_first in (False, True):
            with spa.Network(seed=1) as model:
                if shared_first:
                    spa.State(16)        # the model-wide 16-d vocabulary exists already
                vm = VocabularyMap(rng=np.random.RandomState(9))
                o = c.outcome(lambda: mkmod(vm))
                rep.case(("explicit-vocabs", cname, shared_first))
                rep.count("explicit_vocabs_per_class")
                if o[0] != "ok":
                    rep.violation(f"{cname}(..., vocabs=<explicit map>) raised {o[0]}: {str(o[1])[:100]}", {"case": {"class": cname}})
                    continue
                mod = o[1]
                used = [getattr(mod, a) for a in ("vocab", "input_vocab", "output_vocab") if getattr(mod, a, None) is not None]
                want = vm.get_or_create(16)
                if mod.vocabs is not vm or not used or any(u is not want for u in used) or any(u is model.vocabs.get_or_create(16) for u in used):
                    rep.violation(f"{cname} ignores the explicitly supplied vocabulary map (module built {'after' if shared_first else 'before'} the model-wide vocabulary)",
                                  {"case": {"class": cname, "shared_first": shared_first},
                                   "python": "import numpy as np, nengo_spa as spa\nfrom nengo_spa.vocabulary import VocabularyMap\nwith spa.Network():\n"
                                             f"    vm = VocabularyMap(); m = spa.{cname}(" + {"State": "16", "Bind": "16", "Compare": "16", "Superposition": "2, 16",
                                                                                         "Transcode": "input_vocab=16, output_vocab=16", "ThresholdingAssocMem": "0.3, 16, mapping=['A']",
                                                                                         "WTAAssocMem": "0.3, 16, mapping=['A']", "IAAssocMem": "16, mapping=['A']"}[cname]
                                             + ", vocabs=vm)\nassert m.vocabs is vm\n"})

    # NumPy integers are integers: accepted and sharing the vocabulary of that dimensionality
    for arg in (np.int64(16), np.int32(16), np.uint8(16), np.array([2, 14]).sum()):
        with spa.Network() as model:
            first = spa.State(16, subdimensions=1)
            o = c.outcome(lambda: spa.State(arg, subdimensions=1))
            o2 = c.outcome(lambda: spa.Transcode(input_vocab=arg, output_vocab=arg))
        rep.case(("numpy-int-dim", type(arg).__name__))
        rep.count("rejected_args")
        for nm, oo in (("State", o), ("Transcode", o2)):
            if oo[0] != "ok":
                rep.violation(f"{nm}({type(arg).__name__}(16)) raised {oo[0]}: a NumPy integer dimensionality is rejected", {"case": {"arg": type(arg).__name__}})
            elif getattr(oo[1], "vocab", getattr(oo[1], "input_vocab", None)) is not first.vocab:
                rep.violation(f"{nm}({type(arg).__name__}(16)) does not share the model's 16-dimensional vocabulary", {"case": {"arg": type(arg).__name__}})

    # a dimensionality is an integer, whatever was built before
    for prior in (False, True):
        for arg in (16.0, np.float64(16.0), 32.0):
            with spa.Network():
                if prior:
                    spa.State(16, subdimensions=1)
                    spa.State(32, subdimensions=1)
                try:
                    spa.State(arg, subdimensions=1)
                    got = True
                except Exception:  # noqa
                    got = False
            rep.case(("float-dim", prior, repr(arg)))
            rep.count("rejected_args")
            if got:
                rep.violation(f"State({arg!r}) was accepted {'after modules of that dimensionality exist' if prior else 'in a fresh model'} (a dimensionality must be an integer)",
                              {"case": {"arg": repr(arg), "after_existing_vocabulary": prior},
                               "python": "import nengo_spa as spa\nwith spa.Network():\n    spa.State(16)\n    try:\n        spa.State(16.0)\n    except Exception:\n        pass\n    else:\n        raise AssertionError('float dimensionality accepted')\n"})
    for arg, want in [(0, False), (-3, False), (1, True), (16, True), (2.5, False), ("16", False), (None, None), ([16], False)]:
        if want is None:
            continue
        with spa.Network():
            try:
                spa.State(arg, subdimensions=1)
                got = True
            except ValidationError:
                got = False
            except Exception as e:  # noqa
                got = f"{type(e).__name__}"
        rep.case(("coerce", repr(arg)))
        rep.count("coerce_dim")
        if got != want:
            rep.violation(f"spa.State({arg!r}) accepted={got}, expected accepted={want} (ValidationError otherwise)",
                          {"case": {"arg": repr(arg)}, "python": f"import nengo_spa as spa\nwith spa.Network():\n    spa.State({arg!r})\n"})

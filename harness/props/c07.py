"""C07 correspondence: SemanticPointer operators and methods."""

import numpy as np

from harness import algs
from harness import common as c

RULE = ("operator / method x operand kind x algebra x {vocabulary, none} x {name, none}: +, binary and unary -, * with "
        "pointers in both orders (incl. rbind), * and / with every number kind (int, bool, float, np.float32/64, "
        "np.int64, 0-d array; integer-valued so that the model at Z is exact) on both sides, division by zero, bare "
        "arrays, ~, linv, rinv, dot and @, compare, distance, mse, normalized (incl. the zero vector), length, len, copy, "
        "binding matrix (both swaps); after every operation the operands' vectors are compared with their snapshot; "
        "write attempts through .v. Non-trivial: non-zero operands; distinct = distinct (operation, kinds, algebra, operands).")
ASSUMPTIONS = ["number operands are integer-valued (the model is evaluated at Z); non-integer floats only through homogeneity",
               "NumPy's read-only flag is observed by write attempts; re-enabling the flag deliberately is outside the claim"]

IMPORTS = algs.IMPORTS + " Model.Types Model.SemPtr Tie.SpTie"
PRE = algs.PRELUDE + "import nengo_spa as spa\nfrom nengo_spa.semantic_pointer import SemanticPointer\n"


def run(rep, tier, rng):
    import nengo_spa as spa
    from nengo_spa.algebras.base import ElementSidedness as E
    from nengo_spa.semantic_pointer import SemanticPointer

    quick = tier == "quick"
    exprs, meta = [], []

    def add(expr, m, key, nontrivial=True, sample=None):
        exprs.append(expr)
        meta.append(m)
        rep.case(key, nontrivial, sample)
        rep.count(m["op"])

    ALGOBJ = {a: algs.alg_obj(a) for a in algs.ALGS}

    def alg_name(obj):
        for k, v in ALGOBJ.items():
            if obj is v:
                return k
        return None

    for al in algs.ALGS:
        A = ALGOBJ[al]
        for d in ([4, 9] if quick else [1, 4, 9, 16]) + ([3, 5] if al == "AHrr" else []):
            vocs = [spa.Vocabulary(d, algebra=A), spa.Vocabulary(d, algebra=A)]
            cdims = c.lst([str(d), str(d)])

            def vocid(v):
                if v is None:
                    return "None"
                for i, x in enumerate(vocs):
                    if x is v:
                        return f"(Some {i})"
                return "(Some 99)"

            def mk(vec, voc, name):
                return SemanticPointer(algs.fl(vec), vocab=None if voc is None else vocs[voc],
                                       algebra=None if voc is not None else A, name=name)

            def cq(vec, voc):
                return f"(mksp {c.zlist(vec)} {'None' if voc is None else f'(Some {voc})'} {al})"

            def enc_ptr(p):
                if not isinstance(p, SemanticPointer):
                    raise ValueError("not a pointer")
                a = alg_name(p.algebra)
                if a is None:
                    raise ValueError("foreign algebra")
                return f"({algs.enc_vec(p.v)}, {vocid(p.vocab)}, {a})"

            def obs_t(o, enc):
                try:
                    return c.obs_term(o, enc)
                except Exception:  # noqa
                    return "(OExn OtherError)"

            def enc_num(x):
                return c.dy(float(x))

            def check_unchanged(ptrs, snaps, what):
                for p, s in zip(ptrs, snaps):
                    if not np.array_equal(p.v, s):
                        rep.violation(f"operand vector modified by {what}",
                                      {"case": {"op": what, "before": s.tolist(), "after": p.v.tolist()},
                                       "python": PRE + f"# {what} changed an operand's vector\nassert False, 'operand modified'\n"})

            configs = [(0, 0), (None, None), (0, None), (None, 0)] if quick else \
                [(0, 0), (None, None), (0, None), (None, 0), (1, 1)]
            for va, vb in configs:
                for named in ((True,) if quick else (True, False)):
                    vecs = [algs.rand_vec(rng, d, -4, 4), algs.rand_vec(rng, d, -4, 4)]
                    if rng.random() < 0.25:
                        vecs[1] = [0] * d
                    x, y = vecs
                    a, b2 = mk(x, va, "A" if named else None), mk(y, vb, "B" if named else None)
                    snaps = [a.v.copy(), b2.v.copy()]
                    tol = algs.tol_for(x, y, d=d)
                    base = {"alg": al, "d": d, "x": x, "y": y, "va": va, "vb": vb, "named": named}
                    pyab = f"a = SemanticPointer(np.array({x}, float), vocab={'None' if va is None else f'vocs[{va}]'}, algebra={'A' if va is None else 'None'}); " \
                           f"b = SemanticPointer(np.array({y}, float), vocab={'None' if vb is None else f'vocs[{vb}]'}, algebra={'A' if vb is None else 'None'})"
                    # ---- pointer (op) pointer ------------------------------
                    for opn, cop, fn in [("+", "BAdd", lambda: a + b2), ("-", "BSub", lambda: a - b2),
                                         ("*", "BMul", lambda: a * b2)]:
                        o = c.observe(fn)
                        add(f"check_sp_bin {cdims} {cop} {cq(x, va)} (optr {cq(y, vb)}) false {tol} {obs_t(o, enc_ptr)}",
                            dict(base, op=f"ptr{opn}ptr", py=f"a {opn} b", pyab=pyab, obs=repr(o)[:300]),
                            (opn, al, d, tuple(x), tuple(y), va, vb), nontrivial=any(x) and any(y),
                            sample={"expr": f"a {opn} b", "alg": al, "a": x, "b": y, "vocabs": [va, vb]} if d == 4 and opn == "*" else None)
                    o = c.observe(lambda: a.rbind(b2))
                    add(f"check_sp_bin {cdims} BMul {cq(x, va)} (optr {cq(y, vb)}) true {tol} {obs_t(o, enc_ptr)}",
                        dict(base, op="rbind", py="a.rbind(b)", pyab=pyab, obs=repr(o)[:300]), ("rbind", al, d, tuple(x), tuple(y), va, vb))
                    o = c.observe(lambda: a.__rmul__(b2))
                    add(f"check_sp_bin {cdims} BMul {cq(x, va)} (optr {cq(y, vb)}) true {tol} {obs_t(o, enc_ptr)}",
                        dict(base, op="__rmul__", py="a.__rmul__(b)", pyab=pyab, obs=repr(o)[:300]), ("rmul", al, d, tuple(x), tuple(y), va, vb))
                    o = c.observe(lambda: a.__radd__(b2))
                    add(f"check_sp_radd {cdims} {cq(x, va)} {cq(y, vb)} {tol} {obs_t(o, enc_ptr)}",
                        dict(base, op="__radd__", py="a.__radd__(b)", pyab=pyab, obs=repr(o)[:300]), ("radd", al, d, tuple(x), tuple(y), va, vb))
                    o = c.observe(lambda: a.__rsub__(b2))          # b - a through the reflected operator
                    add(f"check_sp_bin {cdims} BSub {cq(y, vb)} (optr {cq(x, va)}) false {tol} {obs_t(o, enc_ptr)}",
                        dict(base, op="__rsub__", py="a.__rsub__(b)", pyab=pyab, obs=repr(o)[:300]), ("rsub", al, d, tuple(x), tuple(y), va, vb))
                    o = c.observe(lambda: a.bind(b2))
                    add(f"check_sp_bin {cdims} BMul {cq(x, va)} (optr {cq(y, vb)}) false {tol} {obs_t(o, enc_ptr)}",
                        dict(base, op="bind", py="a.bind(b)", pyab=pyab, obs=repr(o)[:300]), ("bind", al, d, tuple(x), tuple(y), va, vb))
                    # ---- scalar-valued methods ------------------------------
                    for nm, chk, fn in [("dot", "check_sp_dot", lambda: a.dot(b2)), ("@", "check_sp_dot", lambda: a @ b2),
                                        ("compare", "check_sp_compare", lambda: a.compare(b2)),
                                        ("distance", "check_sp_distance", lambda: a.distance(b2)),
                                        ("mse", "check_sp_mse", lambda: a.mse(b2))]:
                        o = c.observe(fn)
                        add(f"{chk} {cdims} {cq(x, va)} {cq(y, vb)} {tol} {obs_t(o, enc_num)}",
                            dict(base, op=nm, py=f"a.{nm}(b)" if nm != "@" else "a @ b", pyab=pyab, obs=repr(o)[:300]),
                            (nm, al, d, tuple(x), tuple(y), va, vb))
                    # ---- the same object as both operands (a op a), incl. the zero vector ----
                    for p_, vec_, voc_, nm_ in ((a, x, va, "a"), (b2, y, vb, "b")):
                        for opn, cop, fn in [("+", "BAdd", lambda: p_ + p_), ("-", "BSub", lambda: p_ - p_), ("*", "BMul", lambda: p_ * p_)]:
                            o = c.observe(fn)
                            add(f"check_sp_bin {cdims} {cop} {cq(vec_, voc_)} (optr {cq(vec_, voc_)}) false {tol} {obs_t(o, enc_ptr)}",
                                dict(base, op=f"ptr{opn}same-object", py=f"{nm_} {opn} {nm_}", pyab=pyab, obs=repr(o)[:300]),
                                ("same" + opn, al, d, tuple(vec_), voc_))
                        for nm, chk, fn in [("dot", "check_sp_dot", lambda: p_.dot(p_)), ("compare", "check_sp_compare", lambda: p_.compare(p_)),
                                            ("distance", "check_sp_distance", lambda: p_.distance(p_)), ("mse", "check_sp_mse", lambda: p_.mse(p_))]:
                            o = c.observe(fn)
                            add(f"{chk} {cdims} {cq(vec_, voc_)} {cq(vec_, voc_)} {tol} {obs_t(o, enc_num)}",
                                dict(base, op=nm + "-same-object", py=f"{nm_}.{nm}({nm_})", pyab=pyab, obs=repr(o)[:300]),
                                (nm + "-same", al, d, tuple(vec_), voc_))
                    # compare / distance are cosines: the same for operands of tiny magnitude (exact powers of two)
                    if any(x) and any(y) and va == vb:
                        for e2 in (-14, -34):
                            a_s = SemanticPointer(algs.fl(x) * 2.0 ** e2, vocab=None if va is None else vocs[va], algebra=None if va is not None else A)
                            b_s = SemanticPointer(algs.fl(y) * 2.0 ** e2, vocab=None if vb is None else vocs[vb], algebra=None if vb is not None else A)
                            for nm, chk, fn in [("compare", "check_sp_compare", lambda: a_s.compare(b_s)), ("distance", "check_sp_distance", lambda: a_s.distance(b_s))]:
                                o = c.observe(fn)
                                add(f"{chk} {cdims} {cq(x, va)} {cq(y, vb)} {tol} {obs_t(o, enc_num)}",
                                    dict(base, op=nm + "-small-operands", py=f"(a * 2.0**{e2}).{nm}(b * 2.0**{e2})", pyab=pyab, obs=repr(o)[:300]),
                                    (nm + "-small", e2, al, d, tuple(x), tuple(y), va, vb))
                    check_unchanged([a, b2], snaps, "binary operators / methods")
                    # a pointer is an immutable VALUE: it does not follow later changes of the array it was made from
                    arr_ = algs.fl(x).copy()
                    p_arr = SemanticPointer(arr_, vocab=None if va is None else vocs[va], algebra=None if va is not None else A)
                    before_ = p_arr.v.copy()
                    arr_ += 1.0
                    rep.case(("constructed-from-callers-array", al, d, tuple(x), va))
                    rep.count("constructor-does-not-alias")
                    if not np.array_equal(p_arr.v, before_):
                        rep.violation("a Semantic Pointer changed when the caller modified the array it was constructed from",
                                      {"case": {"alg": al, "d": d, "x": x}, "observed": p_arr.v.tolist(),
                                       "python": PRE + f"arr = np.array({x}, float); p = SemanticPointer(arr); arr += 1.0\nassert np.array_equal(p.v, np.array({x}, float)), p.v\n"})
                    # ---- unary ------------------------------------------------
                    for p, vec, voc, nm in ((a, x, va, "a"), (b2, y, vb, "b")):
                        o = c.observe(lambda: -p)
                        add(f"check_sp_neg {cq(vec, voc)} {tol} {obs_t(o, enc_ptr)}",
                            dict(base, op="neg", py=f"-{nm}", pyab=pyab, obs=repr(o)[:300]), ("neg", al, d, tuple(vec), voc))
                        for sd, fn, pyx in (("STwo", lambda: ~p, f"~{nm}"), ("SLeft", lambda: p.linv(), f"{nm}.linv()"),
                                            ("SRight", lambda: p.rinv(), f"{nm}.rinv()")):
                            o = c.observe(fn)
                            add(f"check_sp_invert {cq(vec, voc)} {sd} {tol} {obs_t(o, enc_ptr)}",
                                dict(base, op="invert-" + sd, py=pyx, pyab=pyab, obs=repr(o)[:300]), ("inv", al, d, tuple(vec), voc, sd))
                        o = c.observe(lambda: p.normalized())
                        add(f"check_sp_normalized {cq(vec, voc)} {tol} {obs_t(o, enc_ptr)}",
                            dict(base, op="normalized", py=f"{nm}.normalized()", pyab=pyab, obs=repr(o)[:300]), ("normalized", al, d, tuple(vec), voc))
                        o = c.observe(lambda: p.length())
                        add(f"check_sp_length {cq(vec, voc)} {tol} {obs_t(o, enc_num)}",
                            dict(base, op="length", py=f"{nm}.length()", pyab=pyab, obs=repr(o)[:300]), ("length", al, d, tuple(vec), voc))
                        o = c.observe(lambda: p.copy())
                        add(f"check_sp_copy {cq(vec, voc)} {tol} {obs_t(o, enc_ptr)}",
                            dict(base, op="copy", py=f"{nm}.copy()", pyab=pyab, obs=repr(o)[:300]), ("copy", al, d, tuple(vec), voc))
                        o = c.observe(lambda: len(p))
                        add(f"check_nat {c.nat(d)} {c.nat(o[1]) if o[0] == 'ok' else '4999%nat'}",
                            dict(base, op="len", py=f"len({nm})", pyab=pyab, obs=repr(o)[:300]), ("len", al, d, tuple(vec), voc))
                        for swap in (False, True):
                            o = c.observe(lambda: p.get_binding_matrix(swap_inputs=swap))
                            add(f"check_sp_bmat {cq(vec, voc)} {c.b(swap)} {tol} {obs_t(o, algs.enc_mat)}",
                                dict(base, op="binding-matrix", py=f"{nm}.get_binding_matrix(swap_inputs={swap})", pyab=pyab, obs=repr(o)[:300]),
                                ("bmat", al, d, tuple(vec), voc, swap))
                            # the caller may do what it likes with the matrix it was handed: the next request is unaffected
                            if o[0] == "ok" and isinstance(o[1], np.ndarray):
                                try:
                                    o[1][...] = 7.0
                                except ValueError:
                                    pass
                                o2 = c.observe(lambda: p.get_binding_matrix(swap_inputs=swap))
                                add(f"check_sp_bmat {cq(vec, voc)} {c.b(swap)} {tol} {obs_t(o2, algs.enc_mat)}",
                                    dict(base, op="binding-matrix-after-caller-modified-the-previous-one",
                                         py=f"{nm}.get_binding_matrix(swap_inputs={swap})[...] = 7.0; r = {nm}.get_binding_matrix(swap_inputs={swap})", pyab=pyab, obs=repr(o2)[:300]),
                                    ("bmat-again", al, d, tuple(vec), voc, swap))
                    check_unchanged([a, b2], snaps, "unary operators / methods")
                    # ---- numbers of every kind, both sides -----------------------
                    n = rng.choice([-3, -2, 2, 3])
                    kinds = {"int": n, "float": float(n), "np.float64": np.float64(n), "np.float32": np.float32(n),
                             "np.int64": np.int64(n), "0-d array": np.array(float(n)), "bool": True, "zero-int": 0,
                             "zero-float": 0.0}
                    for kn, val in kinds.items():
                        cn = c.z(int(val))
                        for opn, cop, fn, sw in [("*", "BMul", lambda: a * val, False), ("r*", "BMul", lambda: val * a, True),
                                                 ("/", "BDivide", lambda: a / val, False),
                                                 ("+", "BAdd", lambda: a + val, False), ("-", "BSub", lambda: a - val, False)]:
                            if kn.startswith("zero") and opn != "/":
                                continue
                            o = c.observe(fn)
                            add(f"check_sp_bin {cdims} {cop} {cq(x, va)} (onum {cn}) {c.b(sw)} {tol} {obs_t(o, enc_ptr)}",
                                dict(base, op=f"ptr{opn}{kn}", py=f"a {opn} {kn}({val!r})", pyab=pyab, obs=repr(o)[:300], num=repr(val)),
                                (opn, kn, al, d, tuple(x), va, int(val)))
                    # ---- bare arrays are rejected --------------------------------
                    arr = algs.fl(y)
                    for opn, cop, fn in [("+", "BAdd", lambda: a + arr), ("-", "BSub", lambda: a - arr), ("*", "BMul", lambda: a * arr),
                                         ("/", "BDivide", lambda: a / arr)]:
                        o = c.observe(fn)
                        add(f"check_sp_bin {cdims} {cop} {cq(x, va)} oarr false {tol} {obs_t(o, enc_ptr)}",
                            dict(base, op=f"ptr{opn}array", py=f"a {opn} np.array(...)", pyab=pyab, obs=repr(o)[:300]),
                            (opn, "array", al, d, tuple(x), va))
                    check_unchanged([a, b2], snaps, "operators with numbers / arrays")
                    # ---- vectors cannot be written to --------------------------------
                    src = algs.fl(x)
                    p = SemanticPointer(src, vocab=None if va is None else vocs[va], algebra=None if va is not None else A)
                    attempts = {
                        "p.v[0] = 1": lambda: p.v.__setitem__(0, 99.0),
                        "p.v[:] = 0": lambda: p.v.__setitem__(slice(None), 0.0),
                        "p.v += 1": lambda: p.v.__iadd__(1.0),
                        "np.copyto(p.v, 0)": lambda: np.copyto(p.v, 0.0),
                        "p.v.fill(0)": lambda: p.v.fill(0.0),
                    }
                    for nm, fn in attempts.items():
                        o = c.observe(fn)
                        rep.case(("write", nm, al, d, va))
                        rep.count("write-attempt")
                        if o[0] == "ok" or not np.array_equal(p.v, algs.fl(x)):
                            rep.violation(f"SemanticPointer vector could be written through `{nm}`",
                                          {"case": {"attempt": nm, "alg": al}, "observed": repr(o)[:200],
                                           "python": PRE + f"p = SemanticPointer(np.array({x}, float))\ntry:\n    {nm}\nexcept Exception:\n    pass\n"
                                           f"assert np.array_equal(p.v, np.array({x}, float)), 'vector was modified'\n"})
                    src[0] = 12345.0  # mutating the array passed to the constructor must not show
                    rep.case(("alias", al, d, va))
                    rep.count("alias-probe")
                    if p.v[0] == 12345.0:
                        rep.violation("SemanticPointer aliases the array passed to its constructor",
                                      {"case": {"alg": al}, "python": PRE + f"src = np.array({x}, float); p = SemanticPointer(src); src[0] = 12345.0\nassert p.v[0] != 12345.0\n"})

            # ---- the special-element subclasses are Semantic Pointers: every operator / method works on them ----------
            from nengo_spa import semantic_pointer as spm
            specials = [("Zero", lambda: spm.Zero(d, algebra=A), [0] * d)]
            if al == "AHrr":
                specials += [("Identity", lambda: spm.Identity(d, algebra=A), [1] + [0] * (d - 1)),
                             ("NegativeIdentity", lambda: spm.NegativeIdentity(d, algebra=A), [-1] + [0] * (d - 1)),
                             ("Identity(vocab)", lambda: spm.Identity(d, vocab=vocs[0]), [1] + [0] * (d - 1))]
            y = algs.rand_vec(rng, d, -4, 4)
            q = mk(y, None, "Q")
            for snm, ctor, vec in specials:
                voc = 0 if "vocab" in snm else None
                sp_ = ctor()
                tol = algs.tol_for(vec, y, d=d)
                base = {"alg": al, "d": d, "x": vec, "y": y, "va": voc, "vb": None, "named": True}
                pyab = f"a = spa.semantic_pointer.{snm.split('(')[0]}({d}, {'vocab=vocs[0]' if voc == 0 else 'algebra=A'}); b = SemanticPointer(np.array({y}, float), algebra=A)"
                for opn, term, fn, enc in [
                        ("copy", f"check_sp_copy {cq(vec, voc)} {tol}", lambda: sp_.copy(), enc_ptr),
                        ("neg", f"check_sp_neg {cq(vec, voc)} {tol}", lambda: -sp_, enc_ptr),
                        ("normalized", f"check_sp_normalized {cq(vec, voc)} {tol}", lambda: sp_.normalized(), enc_ptr),
                        ("length", f"check_sp_length {cq(vec, voc)} {tol}", lambda: sp_.length(), enc_num),
                        ("invert-STwo", f"check_sp_invert {cq(vec, voc)} STwo {tol}", lambda: ~sp_, enc_ptr),
                        ("ptr+ptr", f"check_sp_bin {cdims} BAdd {cq(vec, voc)} (optr {cq(y, None)}) false {tol}", lambda: sp_ + q, enc_ptr),
                        ("ptr*ptr", f"check_sp_bin {cdims} BMul {cq(vec, voc)} (optr {cq(y, None)}) false {tol}", lambda: sp_ * q, enc_ptr),
                        ("__rmul__", f"check_sp_bin {cdims} BMul {cq(y, None)} (optr {cq(vec, voc)}) false {tol}", lambda: q * sp_, enc_ptr)]:
                    if al != "AHrr" and opn == "invert-STwo" and al == "AVtb":
                        continue
                    o = c.observe(fn)
                    add(f"{term} {obs_t(o, enc)}",
                        dict(base, op=f"{opn} on {snm}", py={"copy": "a.copy()", "neg": "-a", "normalized": "a.normalized()", "length": "a.length()",
                                                           "invert-STwo": "~a", "ptr+ptr": "a + b", "ptr*ptr": "a * b", "__rmul__": "b * a"}[opn],
                             pyab=pyab, obs=repr(o)[:300]), ("special", snm, opn, al, d))
            # ---- division by zero is an error for every dividend, the zero vector included (0 / 0 is not a number) ----------
            for zvoc in (None, 0):
                zp = mk([0] * d, zvoc, "Z")
                for kn, val in (("int", 0), ("float", 0.0), ("np.float64", np.float64(0.0)), ("np.int64", np.int64(0))):
                    with np.errstate(all="ignore"):
                        o = c.observe(lambda: zp / val)
                    add(f"check_sp_bin {cdims} BDivide {cq([0] * d, zvoc)} (onum {c.z(0)}) false (1%Z, 1000000000%Z) {obs_t(o, enc_ptr)}",
                        {"alg": al, "d": d, "x": [0] * d, "y": [0] * d, "va": zvoc, "vb": None, "named": True, "op": f"zero-vector/{kn} zero",
                         "py": f"a / {kn}(0)", "pyab": f"a = SemanticPointer(np.zeros({d}), vocab={'None' if zvoc is None else 'vocs[0]'}, algebra={'A' if zvoc is None else 'None'}); b = None",
                         "obs": repr(o)[:300], "num": repr(val)}, ("zero-div", kn, al, d, zvoc))
            # ---- a vocabulary-less pointer stays what it is: combined with one vocabulary, then with another ------------
            xh, yh, y2 = algs.rand_vec(rng, d, -4, 4), algs.rand_vec(rng, d, -4, 4), algs.rand_vec(rng, d, -4, 4)
            ph, q0, q1, ph2 = mk(xh, None, "P"), mk(yh, 0, "A"), mk(y2, 1, "C"), mk(y2, None, "Q")
            tolh = algs.tol_for(xh, yh, d=d)
            baseh = {"alg": al, "d": d, "x": xh, "y": y2, "va": None, "vb": 1, "named": True}
            pyh = (f"p = SemanticPointer(np.array({xh}, float), algebra=A); a = SemanticPointer(np.array({yh}, float), vocab=vocs[0]); "
                   f"b = SemanticPointer(np.array({y2}, float), vocab=vocs[1]); _ = p + a; _ = p * a; _ = p.dot(a); a = p")
            for first in (lambda: ph + q0, lambda: ph * q0, lambda: ph.dot(q0), lambda: q0 - ph):
                c.observe(first)
            for opn, cop, fn in [("+", "BAdd", lambda: ph + q1), ("*", "BMul", lambda: ph * q1), ("-", "BSub", lambda: ph - q1)]:
                o = c.observe(fn)
                add(f"check_sp_bin {cdims} {cop} {cq(xh, None)} (optr {cq(y2, 1)}) false {tolh} {obs_t(o, enc_ptr)}",
                    dict(baseh, op=f"ptr{opn}ptr after the vocabulary-less operand met another vocabulary", py=f"a {opn} b", pyab=pyh, obs=repr(o)[:300]),
                    ("history2", opn, al, d))
            o = c.observe(lambda: ph + ph2)
            add(f"check_sp_bin {cdims} BAdd {cq(xh, None)} (optr {cq(y2, None)}) false {tolh} {obs_t(o, enc_ptr)}",
                dict(baseh, vb=None, op="ptr+ptr of two vocabulary-less pointers after one of them met vocabularies", py="a + SemanticPointer(b.v, algebra=A)", pyab=pyh, obs=repr(o)[:300]),
                ("history2", "novocab", al, d))
            # ---- dot / @ with a matrix operand: v . M in that order (elementary formula on the operands in operand order) -----
            Mi = [[rng.randint(-3, 3) for _ in range(3)] for _ in range(d)]
            M = np.array(Mi, dtype=float)
            want = np.array(xh, float) @ M
            for opn, fn in (("p.dot(M)", lambda: ph.dot(M)), ("p @ M", lambda: ph @ M)):
                o = c.outcome(fn)
                rep.case(("dot-matrix", opn, al, d))
                rep.count("dot-with-2d-array")
                if o[0] != "ok" or np.shape(o[1]) != (3,) or not np.allclose(o[1], want, atol=1e-9):
                    rep.violation(f"SemanticPointer {opn} with a ({d}, 3) array is not v . M ({al}): {o[0] if o[0] != 'ok' else np.asarray(o[1]).tolist()}",
                                  {"case": {"alg": al, "d": d, "v": xh, "M": Mi}, "expected": want.tolist(),
                                   "python": PRE + f"p = SemanticPointer(np.array({xh}, float)); M = np.array({Mi}, float)\nassert np.allclose({opn}, p.v @ M)\n"})
            # ---- operands of unequal length never combine (also when one has length 1, which NumPy would broadcast) -----
            if d > 1:
                x = algs.rand_vec(rng, d, 1, 4)
                a_ = mk(x, None, "A")
                for ylen in (1, d + 1):
                    yv = algs.rand_vec(rng, ylen, 1, 4)
                    b_ = SemanticPointer(algs.fl(yv), algebra=A)
                    tol = algs.tol_for(x, yv, d=d)
                    base = {"alg": al, "d": d, "x": x, "y": yv, "va": None, "vb": None, "named": True}
                    pyab = f"a = SemanticPointer(np.array({x}, float), algebra=A); b = SemanticPointer(np.array({yv}, float), algebra=A)"
                    for opn, fn in [("a + b", lambda: a_ + b_), ("b + a", lambda: b_ + a_), ("a - b", lambda: a_ - b_), ("a * b", lambda: a_ * b_),
                                    ("a.dot(b)", lambda: a_.dot(b_)), ("a.mse(b)", lambda: a_.mse(b_)), ("b.mse(a)", lambda: b_.mse(a_)),
                                    ("a.compare(b)", lambda: a_.compare(b_))]:
                        o = c.observe(fn)
                        rep.case(("unequal", opn, al, d, ylen))
                        rep.count("unequal-lengths")
                        if o[0] == "ok":
                            rep.violation(f"SemanticPointer {opn} with operands of lengths {d} and {ylen} ({al}) returned a value instead of raising",
                                          {"case": dict(base, op=opn), "observed": repr(o[1])[:200],
                                           "python": PRE + f"A = {algs.alg_py(al)}\n{pyab}\ntry:\n    r = {opn}\nexcept (ValueError, TypeError):\n    r = None\n"
                                           "assert r is None, ('operands of unequal length combined', r)\n",
                                           "expected": "Model/SemPtr.v sp_add_ptr / sp_bind_ptr: unequal lengths are an error"})

    verdicts = c.coq_eval("C07", "cases", IMPORTS, exprs, shard=200)
    for ok, m in zip(verdicts, meta):
        if ok:
            continue
        snippet = PRE + f"A = {algs.alg_py(m['alg'])}\nvocs = [spa.Vocabulary({m['d']}, algebra=A), spa.Vocabulary({m['d']}, algebra=A)]\n" \
            f"{m['pyab']}\ntry:\n    r = {m['py'].split('(')[0] if False else m['py'] if 'np.array(...)' not in m['py'] and '(' not in m['py'].split(' ')[-1][:3] else m['py']}\n" \
            "    print(getattr(r, 'v', r))\nexcept Exception as e:\n    print('raised', type(e).__name__, e)\n" \
            f"assert False, 'C07: {m['op']} deviates from the algebra operation / elementary formula on the operands in operand order'\n"
        rep.violation(f"SemanticPointer {m['op']} ({m['alg']}, d={m['d']}, vocabs={m['va']},{m['vb']}) deviates from its specification",
                      {"case": {k: v for k, v in m.items() if k not in ("obs", "py", "pyab")}, "operation": m["py"], "setup": m["pyab"],
                       "observed": m["obs"], "python": snippet,
                       "expected": "Model/SemPtr.v (operators = algebra operations / elementary formulas in operand order)"})

"""C05 correspondence: binding networks and the Bind module with ideal neurons."""

import math

import numpy as np

from harness import algs
from harness import common as c
from harness.props.c08 import unitary_vec

RULE = ("Direct-mode (ideal neuron) simulation of the binding network each algebra provides and of spa.Bind, one input pair per "
        "time step (every connection in these networks is unfiltered): all d*d basis pairs, >= d exactly-unitary x with every "
        "basis y for the unbind options, random integer probes of additivity and homogeneity; d in 1..9 (thorough 1..24) for "
        "HRR, {1,4,9} ({1,4,9,16,25}) for VTB/TVTB; every legal option set and the illegal one; MatrixMult for all shapes "
        "(m,k)x(k,n) up to 3 (thorough 5) on basis pairs and random integer matrices. Outputs compared in Coq with the model. "
        "Non-trivial: non-zero operands; distinct = distinct (network, d, options, pair).")
ASSUMPTIONS = ["ideal neurons = Nengo Direct mode; the product unit computes its product exactly; a connection delivers transform * value",
               "the HRR network's DFT tables are not executable over a ring: agreement on the complete basis of each tested d plus "
               "bilinearity of the network shape gives equality on all inputs of that d, not for all d"]
IMPORTS = algs.IMPORTS + " Model.Nets Tie.NetsTie"
OPTS = {"NoUnbind": (False, False), "UnbindLeft": (True, False), "UnbindRight": (False, True), "UnbindBoth": (True, True)}


def sc(core, n=1, d=1):
    return f"(sc {c.zlist(core)} {c.nat(n)} {c.nat(d)})"


def simulate(build, pairs):
    """Run a two-input network in Direct mode, one (a, b) pair per time step."""
    import nengo
    A = np.array([p[0] for p in pairs], dtype=float)
    B = np.array([p[1] for p in pairs], dtype=float)
    dt = 0.001
    with nengo.Network(seed=1) as net:
        net.config[nengo.Ensemble].neuron_type = nengo.Direct()
        in_a, in_b, out = build()
        idx = lambda t: min(len(pairs) - 1, max(0, int(round(t / dt)) - 1))  # noqa
        na = nengo.Node(lambda t: A[idx(t)])
        nb = nengo.Node(lambda t: B[idx(t)])
        nengo.Connection(na, in_a, synapse=None)
        nengo.Connection(nb, in_b, synapse=None)
        p = nengo.Probe(out, synapse=None)
    with nengo.Simulator(net, dt=dt, progress_bar=False) as sim:
        sim.run_steps(len(pairs))
    return sim.data[p]


def run(rep, tier, rng):
    import nengo
    import nengo_spa as spa
    from nengo_spa.networks.matrix_multiplication import MatrixMult

    quick = tier == "quick"
    exprs, meta = [], []

    def add(expr, m, key, nontrivial=True, sample=None):
        exprs.append(expr)
        meta.append(m)
        rep.case(key, nontrivial, sample)
        rep.count(m["op"])

    # ---------------- MatrixMult -------------------------------------------------------------------
    smax = 3 if quick else 5
    for M in range(1, smax + 1):
        for K in range(1, smax + 1):
            for N in range(1, smax + 1):
                pairs, desc = [], []
                for i in range(M * K):
                    for j in range(K * N):
                        pairs.append((algs.basis(M * K, i), algs.basis(K * N, j)))
                for _ in range(3):
                    pairs.append((algs.rand_vec(rng, M * K, -3, 3), algs.rand_vec(rng, K * N, -3, 3)))
                o = c.outcome(lambda: simulate(lambda: (lambda mm: (mm.input_left, mm.input_right, mm.output))(MatrixMult(1, (M, K), (K, N))), pairs))
                for k, (a, b_) in enumerate(pairs):
                    ob = ("ok", o[1][k], False, []) if o[0] == "ok" else o
                    add(f"check_mm {M} {K} {N} {c.zlist(a)} {c.zlist(b_)} {algs.tol_for(a, b_, d=K)} {c.obs_term(ob, algs.enc_vec)}",
                        {"op": "MatrixMult", "shape": [M, K, N], "a": a, "b": b_, "obs": np.asarray(o[1][k]).tolist() if o[0] == "ok" else list(o[:2])},
                        ("mm", M, K, N, tuple(a), tuple(b_)), nontrivial=any(a) and any(b_),
                        sample={"network": "MatrixMult", "shapes": [[M, K], [K, N]], "left": a, "right": b_} if (M, K, N) == (2, 3, 2) and k == len(pairs) - 1 else None)

    # ---------------- binding networks and the Bind module ---------------------------------------------
    for al in algs.ALGS:
        A = algs.alg_obj(al)
        dims = (list(range(1, 10)) if quick else list(range(1, 25))) if al == "AHrr" else ([1, 4, 9] if quick else [1, 4, 9, 16, 25])
        for d in dims:
            s = int(round(math.sqrt(d)))
            for on, (ul, ur) in OPTS.items():
                for wrapper in ("network", "Bind", "Bind-config"):
                    if wrapper != "network" and (d > 9 or (quick and d not in (4, 5, 9))):
                        continue
                    if wrapper == "Bind-config" and on == "UnbindBoth":
                        continue

                    def build():
                        if wrapper == "network":
                            net, ins, out = A.implement_binding(1, d, ul, ur)
                            return ins[0], ins[1], out
                        voc = spa.Vocabulary(d, algebra=A)
                        if wrapper == "Bind-config":
                            # the options given through the config system instead of constructor arguments
                            with spa.Network() as sn:
                                sn.config[spa.Bind].unbind_left = ul
                                sn.config[spa.Bind].unbind_right = ur
                                b_ = spa.Bind(voc)
                        else:
                            b_ = spa.Bind(voc, unbind_left=ul, unbind_right=ur)
                        return b_.input_left, b_.input_right, b_.output
                    pairs, kinds = [], []
                    E = [algs.basis(d, k) for k in range(d)]
                    if d <= (9 if quick else 16):
                        for a in E:
                            for b_ in E:
                                pairs.append(((a, 1, 1), (b_, 1, 1)))
                                kinds.append("basis")
                    # exactly unitary x with every basis y (the unbind options return y)
                    for _ in range(min(d, 3) if quick else d):
                        xc, xn, xd = unitary_vec(rng, al, d)
                        for y in E[: (3 if quick else d)]:
                            if on == "UnbindLeft":     # (x, x * y)
                                bound = A.bind(np.array(xc, float) * math.sqrt(xn / xd), np.array(y, float))
                                kinds.append(("unbind-left", y))
                                pairs.append(((xc, xn, xd), ("float", bound, xc, xn, xd, y)))
                            elif on == "UnbindRight":  # (y * x, x)
                                bound = A.bind(np.array(y, float), np.array(xc, float) * math.sqrt(xn / xd))
                                kinds.append(("unbind-right", y))
                                pairs.append((("float", bound, xc, xn, xd, y), (xc, xn, xd)))
                    for _ in range(4 if quick else 10):
                        a, a2, b_ = (algs.rand_vec(rng, d, -3, 3) for _ in range(3))
                        al_, be = rng.randint(-3, 3), rng.randint(-3, 3)
                        lin = [al_ * x + be * y for x, y in zip(a, a2)]
                        for pr in ((a, b_), (a2, b_), (lin, b_), (b_, lin)):
                            pairs.append(((pr[0], 1, 1), (pr[1], 1, 1)))
                            kinds.append("probe")

                    def fl(x):
                        return np.asarray(x[1], float) if x[0] == "float" else np.array(x[0], float) * math.sqrt(x[1] / x[2])
                    o = c.outcome(lambda: simulate(build, [(fl(p[0]), fl(p[1])) for p in pairs]))
                    if o[0] != "ok":
                        want_err = on == "UnbindBoth" and al != "AHrr"
                        rep.case(("net-error", al, d, on, wrapper))
                        rep.count("network-construction-error")
                        if not (want_err and o[0] == "ValueError"):
                            rep.violation(f"{al} {wrapper}(d={d}, {on}) raised {o[0]}: {o[1][:100]}", {"case": {"alg": al, "d": d, "opts": on, "wrapper": wrapper}})
                        continue
                    if on == "UnbindBoth" and al != "AHrr":
                        rep.violation(f"{al} {wrapper}(d={d}) accepted both unbind options", {"case": {"alg": al, "d": d}})
                        continue
                    for k, (pa, pb) in enumerate(pairs):
                        ob = ("ok", o[1][k], False, [])
                        kind = kinds[k]
                        if isinstance(kind, tuple):
                            # property level: the option returns y when given the bound pair and a unitary x
                            y = kind[1]
                            add(f"check_is {c.zlist(y)} (1%Z, 10000000%Z) {c.obs_term(ob, algs.enc_vec)}",
                                {"op": kind[0] + "-returns-y", "alg": al, "d": d, "opts": on, "wrapper": wrapper,
                                 "x": [pa[0] if pa[0] != "float" else pb[0], 0], "y": y, "obs": np.asarray(o[1][k]).tolist()},
                                ("unbind", al, d, on, wrapper, k))
                            continue
                        add(f"check_net {al} {on} {sc(*pa)} {sc(*pb)} {algs.tol_for(pa[0], pb[0], d=d)} {c.obs_term(ob, algs.enc_vec)}",
                            {"op": "net-" + kind, "alg": al, "d": d, "opts": on, "wrapper": wrapper, "a": pa[0], "b": pb[0],
                             "obs": np.asarray(o[1][k]).tolist()},
                            ("net", al, d, on, wrapper, tuple(pa[0]), tuple(pb[0])), nontrivial=any(pa[0]) and any(pb[0]),
                            sample={"alg": al, "d": d, "options": on, "wrapper": wrapper, "left": pa[0], "right": pb[0], "output": np.round(o[1][k], 6).tolist()}
                            if d == 4 and kind == "probe" and on == "UnbindLeft" and wrapper == "network" else None)

    # ---------------- the HRR network has the shape the theorem is about ------------------------------------------------
    # Theory/HrrNet.v proves, for every d, that half-spectrum products of Re / Im parts recombined with weights 1 (k = 0,
    # 2k = d) and 2 compute circular convolution.  Here: the three matrices of the implementation are exactly those tables
    # (w = exp(-2 pi i / d)), row by row.
    from nengo_spa.networks import circularconvolution as cc
    struct_bad = []
    for d in (range(1, 33) if quick else range(1, 129)):
        K = d // 2 + 1
        ang = -2.0 * np.pi * np.outer(np.arange(K), np.arange(d)) / d
        tre, tim = np.cos(ang), np.sin(ang)              # Re / Im of w^(k j)
        wt = np.array([1.0 if (k == 0 or 2 * k == d) else 2.0 for k in range(K)])
        for inv in (False, True):
            sgn = -1.0 if inv else 1.0
            exp_a = np.zeros((4 * K, d)); exp_b = np.zeros((4 * K, d))
            for k in range(K):
                exp_a[4 * k + 0], exp_a[4 * k + 1], exp_a[4 * k + 2], exp_a[4 * k + 3] = tre[k], sgn * tim[k], tre[k], sgn * tim[k]
                exp_b[4 * k + 0], exp_b[4 * k + 1], exp_b[4 * k + 2], exp_b[4 * k + 3] = tre[k], sgn * tim[k], sgn * tim[k], tre[k]
            oa = c.outcome(lambda: cc.transform_in(d, "A", inv))
            ob = c.outcome(lambda: cc.transform_in(d, "B", inv))
            rep.case(("cconv-tables", d, inv))
            rep.count("hrr-network-tables")
            for nm, o, ex in (("transform_in A", oa, exp_a), ("transform_in B", ob, exp_b)):
                if o[0] != "ok" or np.shape(o[1]) != ex.shape or not np.allclose(o[1], ex, atol=1e-12):
                    struct_bad.append(f"{nm} (d={d}, invert={inv})")
        exp_out = np.zeros((4 * K, d))
        for k in range(K):
            # idft[k] = conj(w^(k m)) / d : Re = tre, Im = -tim
            exp_out[4 * k + 0], exp_out[4 * k + 1] = wt[k] * tre[k] / d, -wt[k] * tre[k] / d
            exp_out[4 * k + 2], exp_out[4 * k + 3] = wt[k] * tim[k] / d, wt[k] * tim[k] / d
        oo = c.outcome(lambda: cc.transform_out(d))
        if oo[0] != "ok" or np.shape(oo[1]) != (d, 4 * K) or not np.allclose(np.asarray(oo[1]).T, exp_out, atol=1e-12):
            struct_bad.append(f"transform_out (d={d})")

    verdicts = c.coq_eval("C05", "cases", IMPORTS, exprs, shard=250)
    hrr_behaviour_failed = any((not ok) and m.get("alg") == "AHrr" for ok, m in zip(verdicts, meta))
    for what in struct_bad[:3]:
        rep.violation(f"CircularConvolution {what} is not the table of the proved network shape (correspondence with Theory/HrrNet.v cconv_net)",
                      {"case": {"matrix": what}, "correspondence": "harness.props.c05 HRR network tables", "theorem": "C05_hrr_network_computes_circular_convolution",
                       "python": "# compare nengo_spa.networks.circularconvolution.transform_in / transform_out with the cos / sin tables\n"
                                 "assert False, 'network tables differ from the proved shape'\n"}, found_input=hrr_behaviour_failed)
    for ok, m in zip(verdicts, meta):
        if ok:
            continue
        key = None
        if m.get("alg") == "ATvtb" and m.get("opts") == "UnbindLeft":
            key = "tvtb-unbind-left-wrong-side"
        rep.violation(f"{m['op']} {({k: v for k, v in m.items() if k in ('alg', 'd', 'opts', 'wrapper', 'shape')})}: network output differs from the specification "
                      f"(inputs {str(m.get('a', m.get('x')))[:60]}, {str(m.get('b', m.get('y')))[:60]})",
                      {"case": {k: v for k, v in m.items() if k != "obs"}, "observed": m["obs"], "finding_key": key,
                       "python": "# Direct-mode simulation of the binding network, see harness/props/c05.py simulate()\nassert False, 'binding network output differs from the algebra binding / unbinding'\n",
                       "expected": "Model/Nets.v (proved: MatrixMult = matrix product; VTB/TVTB nets = binding / unbinding maps)"})

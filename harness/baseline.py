#!/venv/bin/python
"""Run /repo's pinned test suite (guard off) and compare with BASELINE.json stable_pass."""
import json, os, subprocess, sys, tempfile
import xml.etree.ElementTree as ET

base = json.load(open("/root/.vp/BASELINE.json"))
want = set(base["stable_pass"])
with tempfile.TemporaryDirectory() as td:
    xml = os.path.join(td, "r.xml")
    env = {k: v for k, v in os.environ.items() if k != "NENGO_SPA_VERIF"}
    subprocess.run(["/venv/bin/python", "-m", "pytest", "-ra", "-q", "-p", "no:cacheprovider", "--timeout=900",
                    "--continue-on-collection-errors", f"--junitxml={xml}"], cwd=os.environ.get("VERIF_REPO", "/repo"), env=env,
                   stdout=subprocess.DEVNULL, stderr=subprocess.DEVNULL)
    passed = set()
    for tc in ET.parse(xml).getroot().iter("testcase"):
        if not any(ch.tag in ("failure", "error", "skipped") for ch in tc):
            passed.add(f"{tc.get('classname')}::{tc.get('name')}")
missing = sorted(want - passed)
print(f"baseline: {len(want)} expected, {len(want & passed)} passed, {len(missing)} missing")
for m in missing[:20]:
    print("  MISSING", m)
sys.exit(1 if missing else 0)

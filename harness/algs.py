"""Helpers shared by the algebra-layer checks (C02, C08, C12, C17)."""

import numpy as np

from harness import common as c

ALGS = ["AHrr", "AVtb", "ATvtb"]
IMPORTS = "Model.Vec Model.Hrr Model.Vtb Model.Sign Model.Power Model.Algebra Tie.Close Tie.AlgTie"


def alg_obj(name):
    from nengo_spa.algebras.hrr_algebra import HrrAlgebra
    from nengo_spa.algebras.tvtb_algebra import TvtbAlgebra
    from nengo_spa.algebras.vtb_algebra import VtbAlgebra
    return {"AHrr": HrrAlgebra, "AVtb": VtbAlgebra, "ATvtb": TvtbAlgebra}[name]()


def alg_py(name):
    return {"AHrr": "HrrAlgebra()", "AVtb": "VtbAlgebra()", "ATvtb": "TvtbAlgebra()"}[name]


def side_obj(name):
    from nengo_spa.algebras.base import ElementSidedness as E
    return {"SLeft": E.LEFT, "SRight": E.RIGHT, "STwo": E.TWO_SIDED}[name]


SIDE_PY = {"SLeft": "ElementSidedness.LEFT", "SRight": "ElementSidedness.RIGHT",
           "STwo": "ElementSidedness.TWO_SIDED"}

PRELUDE = """import numpy as np, warnings
from nengo_spa.algebras.hrr_algebra import HrrAlgebra
from nengo_spa.algebras.vtb_algebra import VtbAlgebra
from nengo_spa.algebras.tvtb_algebra import TvtbAlgebra
from nengo_spa.algebras.base import ElementSidedness
warnings.simplefilter('ignore')
"""


def dims_for(alg, dmax):
    if alg == "AHrr":
        return list(range(1, dmax + 1))
    return [s * s for s in range(1, 9) if s * s <= dmax]


def basis(d, k):
    v = [0] * d
    v[k] = 1
    return v


def rand_vec(rng, d, lo=-5, hi=5):
    return [rng.randint(lo, hi) for _ in range(d)]


def shapes(rng, d):
    """Named extreme shapes of dimension d."""
    out = {
        "zero": [0] * d,
        "const": [3] * d,
        "alt": [(-1) ** i * 2 for i in range(d)],
        "big": [rng.choice([-1, 1]) * 10 ** 6 for _ in range(d)],
        "basis_last": basis(d, d - 1),
    }
    return out


def tol_for(*vecs, d=1, extra=1):
    """Absolute tolerance 1e-9 * (product of max-abs of the operands) * d."""
    m = 1
    for v in vecs:
        m *= max(1, max((abs(x) for x in v), default=1))
    return f"({c.z(m * max(d, 1) * extra)}, 1000000000%Z)"


def fl(v):
    return np.array(v, dtype=float)


def enc_vec(x):
    a = np.asarray(x, dtype=float)
    if a.ndim != 1:
        raise ValueError(f"expected a vector, got shape {a.shape}")
    return c.dylist(a.tolist())


def enc_mat(x):
    a = np.asarray(x, dtype=float)
    if a.ndim != 2:
        raise ValueError(f"expected a matrix, got shape {a.shape}")
    return c.dymat(a.tolist())

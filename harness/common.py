"""Shared plumbing of the verification harness.

Everything that touches Coq, evidence files, replays and known findings lives
here; the per-property modules under harness/props/ only generate cases, run
the implementation (imported from /repo) and build Coq terms.
"""

import fcntl
import hashlib
import json
import os
import random
import re
import shutil
import subprocess
import sys
import time
import traceback
from concurrent.futures import ThreadPoolExecutor
from fractions import Fraction
from pathlib import Path

VERIF = Path(__file__).resolve().parent.parent
COQ = VERIF / "coq"
BUILD = VERIF / "build"
EVIDENCE = VERIF / "evidence"
REPLAYS = VERIF / "replays"
REPO = Path(os.environ.get("VERIF_REPO", "/repo"))
if REPO.resolve() != Path("/repo"):
    # a run against a scratch clone (seeded self-test): its evidence never replaces that of /repo itself
    EVIDENCE = BUILD / "scratch_evidence" / REPO.name
PYTHON = "/venv/bin/python"
NPROC = int(os.environ.get("VERIF_JOBS", "16"))

FORBIDDEN = re.compile(
    r"\b(Admitted|admit|Axiom|Axioms|Parameter|Parameters|Conjecture|"
    r"Conjectures|Admit Obligations|bypass_check)\b|Unset Guard Checking|"
    r"Unset Positivity Checking|Unset Universe Checking|type-in-type|"
    r"impredicative-set"
)


# --------------------------------------------------------------------------
# Coq build
# --------------------------------------------------------------------------
def _strip_comments(text):
    out, depth, i = [], 0, 0
    while i < len(text):
        if text.startswith("(*", i):
            depth += 1
            i += 2
        elif text.startswith("*)", i) and depth:
            depth -= 1
            i += 2
        else:
            if not depth:
                out.append(text[i])
            i += 1
    return "".join(out)


def forbidden_vernacular():
    """Return a list of (file, line) hits of forbidden vernacular in coq/."""
    hits = []
    for f in sorted(COQ.rglob("*.v")):
        if ".coq-native" in f.parts:
            continue
        txt = _strip_comments(f.read_text())
        for n, line in enumerate(txt.splitlines(), 1):
            if FORBIDDEN.search(line):
                hits.append(f"{f.relative_to(VERIF)}:{n}: {line.strip()[:80]}")
    cp = (COQ / "_CoqProject").read_text()
    if FORBIDDEN.search(cp):
        hits.append("_CoqProject: forbidden flag")
    return hits


def coq_build(timeout=3000):
    """Full .vo build of the development (no-op when current)."""
    BUILD.mkdir(exist_ok=True)
    with open(BUILD / ".lock", "w") as lock:
        fcntl.flock(lock, fcntl.LOCK_EX)
        mk = COQ / "Makefile"
        cp = COQ / "_CoqProject"
        if not mk.exists() or mk.stat().st_mtime < cp.stat().st_mtime:
            subprocess.run(
                ["coq_makefile", "-f", "_CoqProject", "-o", "Makefile"],
                cwd=COQ,
                check=True,
                capture_output=True,
            )
        p = subprocess.run(
            ["timeout", str(timeout), "make", f"-j{NPROC}"],
            cwd=COQ,
            capture_output=True,
            text=True,
        )
        return p.returncode == 0, (p.stdout + p.stderr)[-4000:]


def check_props(cid):
    """Re-check Props/<cid>.v and collect Print Assumptions per theorem."""
    src = COQ / "Props" / f"{cid}.v"
    outdir = BUILD / "props" / f"run-{os.getpid()}"
    outdir.mkdir(parents=True, exist_ok=True)
    text = _strip_comments(src.read_text())
    theorems = re.findall(r"^\s*(?:Theorem|Lemma|Corollary)\s+(\w+)", text, re.M)
    printed = re.findall(r"^\s*Print Assumptions\s+(\w+)\s*\.", text, re.M)
    # non-vacuity Examples that are followed by Print Assumptions are obligations like the theorems
    theorems += [e for e in re.findall(r"^\s*Example\s+(\w+)", text, re.M) if e in printed and e not in theorems]
    p = subprocess.run(
        ["timeout", "600", "coqc", "-Q", ".", "NSpa", "-w", "none",
         str(src), "-o", str(outdir / f"{cid}.vo")],
        cwd=COQ,
        capture_output=True,
        text=True,
    )
    shutil.rmtree(outdir, ignore_errors=True)
    res = {
        "file": str(src.relative_to(VERIF)),
        "theorems": theorems,
        "ok": p.returncode == 0,
        "log": (p.stdout + p.stderr)[-3000:] if p.returncode else "",
        "assumptions": {},
    }
    if p.returncode == 0:
        blocks = re.split(r"(?=^Closed under the global context|^Axioms:)", p.stdout, flags=re.M)
        blocks = [b for b in blocks if b.startswith("Closed") or b.startswith("Axioms:")]
        for name, b in zip(printed, blocks):
            if b.startswith("Closed"):
                res["assumptions"][name] = []
            else:
                res["assumptions"][name] = re.findall(r"^(\S+)\s*:", b[len("Axioms:"):], re.M)
        res["unprinted"] = [t for t in theorems if t not in res["assumptions"]]
        if len(blocks) != len(printed):
            res["ok"] = False
            res["log"] = "Print Assumptions output count mismatch"
    return res


# --------------------------------------------------------------------------
# Coq term printing
# --------------------------------------------------------------------------
def z(n):
    n = int(n)
    return f"({n})%Z"


def nat(n):
    n = int(n)
    assert 0 <= n < 5000, n
    return f"{n}%nat"


def b(x):
    return "true" if x else "false"


def lst(items):
    return "[" + "; ".join(items) + "]"


def zlist(v):
    return lst([z(x) for x in v])


def zmat(m):
    return lst([zlist(r) for r in m])


def dy(x):
    """A Python/NumPy float as an exact dyadic rational (num, log2 den)."""
    x = float(x)
    if x != x or x in (float("inf"), float("-inf")):
        return "(0%Z, 5000%nat)"  # sentinel: never close to anything
    n, d = x.as_integer_ratio()
    k = d.bit_length() - 1
    assert d == 1 << k
    if k > 1100:  # subnormal tails: round towards zero at 2^-1100
        n = n >> (k - 1100) if n >= 0 else -((-n) >> (k - 1100))
        k = 1100
    return f"({z(n)}, {k}%nat)"


def dylist(v):
    return lst([dy(x) for x in v])


def dymat(m):
    return lst([dylist(r) for r in m])


def s(text):
    return '"' + text.replace('"', '""') + '"%string'


def opt(x, f):
    return "None" if x is None else f"(Some {f(x)})"


# --------------------------------------------------------------------------
# Running generated case files
# --------------------------------------------------------------------------
def _run_shard(args):
    path, imports, ty, exprs = args
    vfile = path.with_suffix(".v")
    out = path.with_suffix(".out")
    if out.exists():
        out.unlink()
    body = [f"From NSpa Require Import {imports}.",
            "From Coq Require Import List ZArith String.",
            "Import ListNotations.",
            "Local Open Scope Z_scope." if False else "",
            f"Definition vs : list {ty} := ["]
    body.append(";\n".join(exprs))
    body.append("].")
    body.append(f'Redirect "{path}" Eval vm_compute in vs.')
    vfile.write_text("\n".join(body) + "\n")
    p = subprocess.run(
        ["timeout", "1200", "coqc", "-Q", str(COQ), "NSpa", "-w", "none", str(vfile)],
        cwd=path.parent,
        capture_output=True,
        text=True,
    )
    if p.returncode != 0:
        return None, (p.stdout + p.stderr)[-2000:]
    return out.read_text(), ""


def coq_eval(cid, name, imports, exprs, ty="bool", shard=300):
    """Evaluate a list of closed Coq expressions of type [ty] with vm_compute.

    Returns a list of Python values (bool for ty=bool, int for ty=nat/Z) or
    raises RuntimeError with the coqc log when a shard does not compile.
    """
    # one directory per run: concurrent runs of the same check must not share case files
    d = BUILD / cid / f"run-{os.getpid()}"
    d.mkdir(parents=True, exist_ok=True)
    jobs = []
    for i in range(0, len(exprs), shard):
        jobs.append((d / f"{name}_{i // shard}", imports, ty, exprs[i:i + shard]))
    results = []
    with ThreadPoolExecutor(NPROC) as ex:
        outs = list(ex.map(_run_shard, jobs))
    for (path, _, _, chunk), (txt, log) in zip(jobs, outs):
        if txt is None:
            raise RuntimeError(f"coqc failed on {path}.v:\n{log}")
        if ty == "bool":
            vals = [t == "true" for t in re.findall(r"\b(true|false)\b", txt.split(": list")[0])]
        else:
            body = txt.split(": list")[0]
            vals = [int(t) for t in re.findall(r"-?\d+", body.replace("%Z", "").replace("%nat", ""))]
        if len(vals) != len(chunk):
            raise RuntimeError(f"verdict count mismatch in {path}: {len(vals)} vs {len(chunk)}")
        results.extend(vals)
    if not os.environ.get("VERIF_KEEP"):
        shutil.rmtree(d, ignore_errors=True)
    return results


# --------------------------------------------------------------------------
# Known findings, violations, evidence
# --------------------------------------------------------------------------
def known_findings(cid):
    f = VERIF / "known_findings.json"
    if not f.exists():
        return []
    data = json.loads(f.read_text())
    return [e for e in data.get("findings", []) if e["property"] == cid and e.get("status") == "known"]


class Report:
    """Collects what one check run did; writes evidence; prints verdict lines."""

    def __init__(self, cid, tier, seed):
        self.cid, self.tier, self.seed = cid, tier, seed
        self.t0 = time.time()
        self.violations = []
        self.known_hit = []
        self.cases = 0
        self.nontrivial = set()
        self.samples = []
        self.dist = {}
        self.notes = []
        self.props = None
        self.assumptions = []
        self.exhaustive = None
        self.rule = ""

    # -- accounting ---------------------------------------------------------
    def count(self, kind, n=1):
        self.dist[kind] = self.dist.get(kind, 0) + n

    def case(self, key, nontrivial=True, sample=None):
        self.cases += 1
        if nontrivial:
            self.nontrivial.add(hashlib.sha1(repr(key).encode()).hexdigest()[:16])
        if sample is not None and len(self.samples) < 6:
            self.samples.append(sample)

    # -- violations ---------------------------------------------------------
    def violation(self, what, replay, found_input=True):
        """Record a violation; replay is a JSON-able dict."""
        key = replay.get("finding_key")
        for kf in known_findings(self.cid):
            if key is not None and kf.get("key") == key:
                if kf not in self.known_hit:
                    self.known_hit.append(kf)
                return
        replay = dict(replay)
        replay.update(property=self.cid, what=what, seed=self.seed, tier=self.tier,
                      found_failing_input=found_input)
        self.violations.append(replay)

    def finish(self, level_extra=None):
        wall = time.time() - self.t0
        REPLAYS.mkdir(exist_ok=True)
        EVIDENCE.mkdir(parents=True, exist_ok=True)
        for kf in self.known_hit:
            print(f"KNOWN-FINDING: property={self.cid} {kf['what']}")
        lines = []
        # at most 5 VIOLATION lines, one replay file each
        seen = set()
        for v in self.violations:
            h = hashlib.sha1(json.dumps(v, sort_keys=True, default=str).encode()).hexdigest()[:12]
            if h in seen:
                continue
            seen.add(h)
            if len(seen) > int(os.environ.get("VERIF_MAXVIOL", "5")):
                break
            path = REPLAYS / f"{self.cid}-{h}.json"
            path.write_text(json.dumps(v, indent=1, default=str))
            tail = "" if v.get("found_failing_input", True) else " no-failing-input-found"
            lines.append(f"VIOLATION property={self.cid} replay={path}{tail}")
        props = self.props or {"theorems": [], "assumptions": {}, "ok": False}
        obligations = len(props["theorems"])
        discharged = len(props["assumptions"]) if props["ok"] else 0
        axioms = sorted({a for l in props["assumptions"].values() for a in l})
        coverage = {
            "obligations": obligations,
            "discharged": discharged,
            "checker_cmd": f"coqc -Q coq NSpa coq/Props/{self.cid}.v (after a full make of coq/; "
                           "Print Assumptions after every theorem)",
            "trusted_base": [
                "Coq 8.16.1 kernel, vm_compute (no native_compute)",
                "axioms reported by Print Assumptions: " + (", ".join(axioms) if axioms else "none (closed under the global context)"),
                "hand-written Gallina model under coq/Model (tied to /repo by the correspondence check of this run)",
                "harness: case generators, float->dyadic conversion, Coq term printer, verdict reader",
            ] + self.assumptions,
            "theorems": props["theorems"],
            "assumptions_per_theorem": props["assumptions"],
            "evaluations": self.cases,
            "distinct_nontrivial": len(self.nontrivial),
            "rule": self.rule,
            "samples": self.samples or ["(no cases)"],
            "distribution": self.dist,
            "traces_validated_against_impl": self.cases,
            "known_findings_replayed": [k["what"] for k in self.known_hit],
            "notes": self.notes,
        }
        if self.exhaustive is not None:
            coverage["exhaustive"] = bool(self.exhaustive)
        if level_extra:
            coverage.update(level_extra)
        ev = {
            "property_id": self.cid,
            "tier": self.tier,
            "seed": self.seed,
            "level": "proof",
            "coverage": coverage,
            "assumptions": self.assumptions,
            "wall_s": round(wall, 2),
            "violations": len(lines),
        }
        (EVIDENCE / f"{self.cid}.json").write_text(json.dumps(ev, indent=1, default=str))
        for l in lines:
            print(l)
        status = "FAIL" if lines else "ok"
        print(f"[{self.cid}] {status}: {self.cases} cases, {len(self.nontrivial)} distinct non-trivial, "
              f"{discharged}/{obligations} theorems, {wall:.1f}s")
        return 1 if lines else 0


def make_rng(seed, cid):
    return random.Random(f"{seed}:{cid}")


def outcome(fn):
    """Run fn(); return ('ok', value) or (exception-class-name, message)."""
    try:
        return "ok", fn()
    except BaseException as e:  # noqa
        if isinstance(e, (KeyboardInterrupt, SystemExit)):
            raise
        return type(e).__name__, str(e)


# --------------------------------------------------------------------------
# Observing the implementation
# --------------------------------------------------------------------------
EXN = {
    "ValueError": "ValueError", "TypeError": "TypeError", "SpaTypeError": "SpaTypeError",
    "SpaParseError": "SpaParseError", "ValidationError": "ValidationError",
    "NotImplementedError": "NotImplementedErr", "ZeroDivisionError": "ZeroDivisionError",
    "ImportError": "ImportError", "ModuleNotFoundError": "ImportError", "KeyError": "KeyError",
    "SpaActionSelectionError": "SpaActionSelectionError", "AttributeError": "AttributeError",
    "StopIteration": "StopIteration",
}


def observe(fn):
    """Run fn capturing warnings: ('ok', value, deprecation?, [warning classes]) or (exn, msg)."""
    import warnings as _w
    with _w.catch_warnings(record=True) as rec:
        _w.simplefilter("always")
        try:
            val = fn()
        except BaseException as e:  # noqa
            if isinstance(e, (KeyboardInterrupt, SystemExit)):
                raise
            return (type(e).__name__, str(e)[:200])
    classes = sorted({r.category.__name__ for r in rec
                      if "numpy.core" not in str(r.message)})
    return ("ok", val, "DeprecationWarning" in classes, classes)


def obs_term(o, enc):
    """Coq term of type [obs _] for an observation made by observe()."""
    if o[0] == "ok":
        return f"(OVal {enc(o[1])} {b(o[2])})"
    return f"(OExn {EXN.get(o[0], 'OtherError')})"


def obs_json(o):
    if o[0] == "ok":
        v = o[1]
        try:
            import numpy as np
            v = np.asarray(v).tolist()
        except Exception:  # noqa
            v = repr(v)
        return {"ok": v, "warnings": o[3]}
    return {"raised": o[0], "message": o[1]}

#!/venv/bin/python
"""Regenerate /verif/MANIFEST.json from the table below and validate it."""
import json
import os
import sys

import jsonschema

VERIF = os.path.dirname(os.path.dirname(os.path.abspath(__file__)))

# id -> (technique, level text, level note, design ref)
CLAIMED = {
    "C11": (
        "Coq proof (stdlib) of the order/LUB laws over a hand-written Gallina model of types.py; "
        "exhaustive correspondence check model vs implementation evaluated inside Coq",
        "Theorems for every assignment of dimensionalities, any number of vocabularies and any tuple length: "
        "the six comparison operators realise one partial order with exactly the documented chains; Python's max "
        "returns the greatest member when one exists; coerce_types returns it iff it exists, independent of order "
        "and repetition; error reasons name a real conflict; equal types hash equally. The model is tied to the "
        "code by an exhaustive enumeration of the property's universe (all pairs x 6 operators + hash, all tuples "
        "of length 1..4) compared in Coq by vm_compute.",
        "Trusted: Coq kernel + vm_compute; hand-written model Model/Types.v (validated exhaustively on the "
        "universe, not beyond it); harness term printer. No axioms (Print Assumptions: closed).",
        "DESIGN.md section 5, C11",
    ),
    "C02": (
        "Coq/MathComp proofs over generic commutative rings (convolution on the cyclic group Z_d; kron/reshape route = "
        "matrix product on 'M_s) about a hand-written executable model; correspondence check of model vs implementation "
        "evaluated in Coq at Z on complete bases + probes",
        "Theorems for every commutative ring, every dimension and all vectors: HRR bind is the circular-convolution sum, "
        "commutative, associative, bilinear, rejects unequal lengths; VTB/TVTB bind computes sqrt(s)*A*B^T resp. sqrt(s)*A*B "
        "through the code's kron(eye,reshape) route, bilinear, rejects unequal / non-square sizes, valid d iff positive square; "
        "binding matrices for both swap_inputs values and inversion matrices equal the direct operation; superposition is "
        "pointwise. Tie: all d*d basis pairs (d<=12 HRR, squares<=16; thorough 24/25), column families and random integer "
        "probes for d<=32 (64), both matrix forms, all sidedness values, is_valid_dimensionality on a range; floats compared "
        "in Coq as exact dyadics against the model at Z with sqrt handled by integer square roots.",
        "Trusted: Coq kernel + vm_compute; models Model/Hrr.v, Model/Vtb.v (bind is modelled by its defining sum, NumPy's "
        "FFT is observed only through results; the 3-axis transpose of get_inversion_matrix is modelled by its index formula); "
        "float rounding bounded by tolerance 1e-9, not modelled; harness. No axioms.",
        "DESIGN.md section 5, C02",
    ),
    "C08": (
        "Coq/MathComp proofs (identity/negative identity/zero/absorbing laws per side, unitarity <=> unbinding, guard "
        "soundness, no left identity in VTB) over a hand-written executable model; exhaustive correspondence of "
        "algebra x element x sidedness x d evaluated in Coq at Z",
        "Theorems for every commutative ring, dimension and vector: each element returned for a side satisfies that side's "
        "law (HRR both sides incl. absorbing element: unit length, bind v z = (sum v) z; VTB right identity / negative "
        "identity / zero with the exact sqrt radicands, refusal for LEFT, deprecation flag for TWO_SIDED, and a proof that "
        "VTB has no left identity for s >= 2; TVTB two-sided), inverse undoes binding on a side for all a iff v is unitary "
        "(HRR: v*~v = e0; VTB/TVTB: s V^T V = I resp. s V V^T = I, equivalent over commutative unit rings), inverting twice "
        "is the identity, inverse = inversion matrix. Tie: exhaustive outcome/warning/vector table for all valid d <= 36 "
        "(thorough 64), elements bound to random vectors on both sides, inverse round trips on exactly unitary and random "
        "vectors for all three sidedness values, SemanticPointer wrappers and vocabulary special names.",
        "Trusted: Coq kernel + vm_compute; models Model/Hrr.v, Model/Vtb.v; irrational factors carried as (core, radicand) "
        "and compared through integer square roots; float rounding bounded by tolerance; harness. No axioms.",
        "DESIGN.md section 5, C08",
    ),
    "C17": (
        "Coq/MathComp proofs (characters of Z_d for DC/Nyquist multiplicativity, sign-vector unitarity, quadratic-form "
        "certificate theorems) over a hand-written executable model, with _refuted witness lemmas for the two clauses "
        "the code violates; correspondence check in Coq at Z incl. certificate re-verification",
        "Theorems over every real domain: DC and (even d) Nyquist coefficients are multiplicative under HRR binding, hence "
        "the raw sign of a binding is the product of raw signs; the constructed sign is the component-wise product when d is "
        "odd or no Nyquist coefficient vanishes (partial; refuted otherwise with witness [1,1],[0,1]); HrrSign classification "
        "is total and exactly-one outside the class dc=0/nyquist<>0, where it raises (refuted witness [1,-1]); every definite "
        "non-zero sign vector is unitary and binding it back onto abs v reconstructs v; a congruence certificate V=LDL^T with "
        "unit L decides positive/negative definiteness, zero, or indefiniteness of the quadratic form; GenericSign predicates "
        "are exclusive and exhaustive. Stated, not proved (tie only): abs v is positive and abs is idempotent; the "
        "certificate classifier <-> eigenvalue definition. Tie: all (dc,nyquist) sign classes for d<=32 (64), products, abs, "
        "to_vector, SemanticPointer.sign()/abs(); VTB/TVTB matrices from certificates s<=4 (7) incl. non-symmetric, singular "
        "semi-definite and rounded-symmetric large ones (one defect repaired: sign of singular matrices decided by rounding).",
        "Trusted: Coq kernel + vm_compute; models Model/Hrr.v, Model/Sign.v; LAPACK eigvalsh / NumPy rfft observed only "
        "through results, boundary cases restricted to inputs on which rfft is exact; two known findings replayed each run.",
        "DESIGN.md section 5, C17",
    ),
    "C12": (
        "Coq/MathComp proofs (power laws by induction, matrix powers in 'M_s, isometry from algebraic unitarity via "
        "convolution-at-zero resp. trace) over a hand-written executable model; equality tie for integer powers and "
        "in-Coq relation checks on the implementation's exact outputs for unitary vectors and fractional powers",
        "Theorems for every commutative ring, dimension, vector: HRR/VTB/TVTB integer power = left-nested n-fold binding "
        "(n>=1), identity for 0, same power of the inverse for n<0; HRR and TVTB exponents of equal sign add; a vector that "
        "is unitary in the algebra's sense (HRR: v*~v=e0; VTB: sV^TV=I; TVTB: sVV^T=I / sV^TV=I) preserves all dot products "
        "on the side(s) the algebra supports and its inverse undoes the binding. HRR in the Fourier domain, every d "
        "(Theory/Fourier.v, FourierMore.v): powers raise each spectral coefficient, a unitary vector has a unit-modulus "
        "spectrum, whatever vector has the spectrum F_k/|F_k| (what make_unitary feeds to irfft) is unitary and normalising "
        "it again changes nothing, spectra additive in the exponent give a^(x+y) = a^x * a^y for real exponents. PARTIAL: "
        "that NumPy's rfft/irfft produce those spectra, and the VTB/TVTB row-orthogonalisation (np.linalg.solve), are not "
        "theorems: make_unitary / UnitaryVectors outputs and fractional powers are relation-checked inside Coq on every "
        "generated output (unitarity, fixed point, isometry on integer partners, unbinding), incl. structured / singular "
        "inputs. Two defects found and repaired (HRR make_unitary with coefficients vanishing up to rounding). Tie: powers -6..6 for "
        "d<=25 (thorough 64/49) via algebra API and SemanticPointer.__pow__.",
        "Trusted: Coq kernel + vm_compute; models Model/Power.v etc.; NumPy FFT/solve observed through results; SciPy absent "
        "(fractional VTB/TVTB powers raise ImportError, modelled as such); tolerances 1e-8 on relation checks.",
        "DESIGN.md section 5, C12",
    ),
    "C07": (
        "Coq/MathComp proofs about a hand-written executable model of SemanticPointer (operators dispatch on operand kind, "
        "results as exact symbolic values), correspondence check over the operator x operand-kind x algebra x vocabulary table",
        "Theorems for every commutative ring and all vectors: a*b binds the left operand on the left whichever method handles "
        "it (reflected form exchanges back), +/- are element-wise in operand order, number scaling is the same on both sides, "
        "division by zero is an error, negation, compare = <a,b>/sqrt(|a|^2|b|^2) with 0 for a zero scale, zero vector "
        "normalises to itself, mse formula, inverses use the pointer's own algebra and keep its vocabulary, arrays rejected; "
        "results carry the coerced vocabulary and the left operand's algebra. Immutability holds by construction in the model; "
        "the implementation's read-only flag is exercised by the tie (write attempts, operand snapshots, constructor aliasing). "
        "Tie: all operators/methods x number kinds (int, bool, float, np.float32/64, np.int64, 0-d array) x three algebras x "
        "{vocabulary, none} x {name, none}, d in {4,9} (+3,5 HRR; thorough adds 1,16).",
        "Trusted: Coq kernel + vm_compute; Model/SemPtr.v; number operands are integer-valued (model at Z); sqrt-valued results "
        "compared through integer square roots; harness.",
        "DESIGN.md section 5, C07",
    ),
    "C03": (
        "Coq proofs (coerce_types is the LUB, Props/C11; SemanticPointer gate theorems) about a type-level model of operand "
        "dispatch; exhaustive operand-matrix correspondence evaluated in Coq; history clause checked on the implementation",
        "Theorems: two SemanticPointers are combined iff same vocabulary / one vocabulary-less / both vocabulary-less with the "
        "same algebra; every rejection is SpaTypeError or TypeError and happens before any value (operations are gated first); "
        "the result carries the operands' vocabulary, a vocabulary-less operand adopting the other's; dot/compare/mse are gated "
        "too; bare arrays rejected by + - * /. For symbols and dynamic nodes every route ends in coerce_types (C11 theorems); "
        "type-level theorems over the whole operand matrix (Theory/DispatchLaws.v): operands of two different vocabularies "
        "are rejected for every operator and every pair of operand families, a vocabulary of another dimensionality than an "
        "any-of-d operand is rejected, equal vocabularies are accepted with the result carrying it, a bare array never "
        "combines arithmetically with a pointer operand. "
        "Tie: exhaustive matrix 10 operators x 47 operand descriptors squared (kinds: pointer with/without vocabulary incl. "
        "other algebra/length, symbol typed/untyped, dynamic pointer, dynamic scalar, numbers, array) vs Model/Dispatch.v; "
        "history clause: all sequences (length <= 2 quick / 3 thorough + random to 12) of a vocabulary-less pointer meeting "
        "three vocabularies through +, *, dot, reflected +. Four defects found by this check were repaired in /repo (the last: "
        "a length-1 pointer broadcasting against any other length).",
        "Trusted: Coq kernel + vm_compute; Model/Dispatch.v is a specification-level decision table ('free' cells are "
        "combinations the DSL does not implement); vocabulary-less pointers carry no dimensionality in their type, so their "
        "length mismatches are not claimed; harness.",
        "DESIGN.md section 5, C03",
    ),
    "C09": (
        "Coq proofs by induction over histories (invariant + append-only refinement to the list of successful additions) "
        "about a hand-written executable state-machine model of Vocabulary; histories replayed on the implementation and the "
        "model, full observable state compared in Coq after every step",
        "Theorems for histories of any length over add / item access / membership / create_pointer / parse / populate / "
        "create_subset, including failing calls: the invariant (keys, index map and vector matrix aligned, keys valid and "
        "distinct, vectors of the right length) holds in every reachable state; every step only appends to the (key, vector) "
        "list, so stored vectors never change; an addition appends exactly its pair or leaves the state unchanged, and "
        "succeeds iff the name is valid, not reserved, new, and the pointer belongs to this vocabulary/algebra and has the "
        "right length; strict vocabularies never gain keys through lookup/parse/subset; non-strict lookup adds exactly the "
        "missing valid key with the next generated vector; len / iteration / membership agree with the abstract list. "
        "Tie: exhaustive histories to length 2 (thorough 3) + random to length 40 over a 60-op alphabet, strict and "
        "non-strict, three algebras, with aliasing probes. One defect (wrong-length add) found and repaired.",
        "Trusted: Coq kernel + vm_compute; Model/Vocab.v; pointer generator scripted (selection logic is C10); parse "
        "modelled by its state effect; harness. No axioms.",
        "DESIGN.md section 5, C09",
    ),
    "C10": (
        "Coq/MathComp proofs about a hand-written executable evaluator of the expression AST in the vocabulary's algebra and "
        "about the create_pointer selection loop (induction over the candidate list); random ASTs / populate strings / "
        "scripted candidate streams compared with the implementation inside Coq",
        "Theorems for every commutative ring resp. real domain: special names evaluate to the vocabulary's own algebra's "
        "elements; a bare number is that multiple of the vocabulary's identity; names denote entries and an unknown name is a "
        "parse error; * + - ~ are binding / superposition / negation / the algebra's inverse on the sub-expression values "
        "(errors propagate); create_pointer on an empty vocabulary returns the first candidate, otherwise the first candidate "
        "whose largest similarity is below the bound (no warning), otherwise a least-similar candidate together with a warning "
        "(None only when no attempt is allowed). populate's left-to-right item processing is the fold proved in C09. "
        "Tie: 60 (thorough 500) random ASTs per algebra and d with random whitespace, number-only and special-name "
        "expressions, error classes (unknown name, non-pointer, malformed), populate strings with all three item forms "
        "checked item by item, 630 create_pointer scripts (bounds hitting similarities exactly, attempts 0..6). One defect "
        "(number clause) found and repaired.",
        "Trusted: Coq kernel + vm_compute; Model/Parse.v; CPython's text->AST step (the model evaluates the AST the text was "
        "printed from); sums with different irrational factors are skipped (counted in the evidence); .unitary() is "
        "relation-checked in C12, not here.",
        "DESIGN.md section 5, C10",
    ),
    "C14": (
        "Coq proofs by induction over statement lists and event histories about a hand-written executable state-machine "
        "model of ActionSelection / routed mode; histories of block outcomes replayed on the implementation and compared in Coq",
        "Theorems for bodies and histories of any length: every block - normal, exception before/after an ifmax, free-floating "
        "routing, nested block, bad condition type, non-routing effect, failing build - ends with the three process-wide "
        "switches at rest; every history of blocks, plain `>>` and stray ifmax calls ends at rest; a block's outcome (error "
        "class, built flag, action names) is the same after any history as from the initial state; inside a block `>>` never "
        "connects immediately, outside it always does; built implies no error; each misuse yields its documented error; "
        "keys() yields one key per action in declaration order (name, else position) and lookups by position and by "
        "(distinct) name return that action. Tie: exhaustive histories over 17 events to length 2 (thorough 3) + random "
        "histories to length 12 with random bodies of up to 6 actions. One defect (keys of mixed named/unnamed actions) "
        "found and repaired.",
        "Trusted: Coq kernel; Model/ActionSel.v; networks are built, not simulated; the harness resets the three switches "
        "after recording each event so that one residue cannot mask another.",
        "DESIGN.md section 5, C14",
    ),
    "C18": (
        "Coq proofs by mutual structural induction over nesting trees about a hand-written executable model of vocabulary-map "
        "resolution (Network.context / Config.context / master map); vocabulary-identity partitions of built models compared "
        "with the model in Coq",
        "Theorems for nesting trees of any depth mixing plain and SPA containers with explicit overrides and seeds: all modules "
        "of a model that are not below an explicit override resolve to the same vocabulary map, hence modules with equal "
        "dimensionality share one Vocabulary object; every module below an explicitly supplied map uses that map, which is "
        "fresh, and nothing below a supplied or inherited map creates a map (Theory/NetworkCtxExplicit.v); the maps a model uses are created by that model, so models built one "
        "after another never share vocabularies; dimensionality arguments below 1 or of the wrong kind are rejected. "
        "Reproducibility from the seed is determinism of the traversal plus the seed recorded per map; 'a different seed gives "
        "different pointers' is tested, not proved. Tie: all tree shapes to 4 (thorough 5) nodes over a reduced label set + "
        "random trees to depth 4 / 12 nodes, two models per process, partition by `is` on .vocab; pointer equality across "
        "two same-seed builds and inequality for a different seed; rejection table; both construction orders (nested "
        "with-blocks; containers created first and entered again later).",
        "Trusted: Coq kernel; Model/NetworkCtx.v (Nengo's two context stacks modelled as traversal parameters); reading of "
        "'the seed' as the seed of the network that creates the map (DESIGN.md); harness.",
        "DESIGN.md section 5, C18",
    ),
    "C06": (
        "Coq proofs by structural induction (printer output is derivable in a stratified grammar relation for Python's "
        "expression syntax; symbolic operators build the tree of the written operations) about a hand-written executable "
        "model of expr_tree.py / symbolic.py; printed strings compared with the model in Coq and re-parsed with CPython",
        "Theorems for every tree over {| ^ & << >> + - * @ / // % **, unary - + ~, attribute, zero-argument call}: the "
        "printed token string is derivable at the tree's own precedence level with exactly that tree (soundness of the "
        "parenthesisation rules incl. the right-associative **); for every symbolic program over sym.X, sym('...'), numbers, "
        "+ - * / - ~ and the four methods the operators build the tree of the written operations with the same nesting, "
        "and that tree prints soundly; upstream's unrepaired rule is kept with its partial theorem and the witness "
        "(a ** b) ** c. Evaluation of the re-parsed tree is the C10 evaluator. PARTIAL: determinism of the grammar relation "
        "(one tree per string) is not proved - CPython's ast.parse is compared with the original tree on every printed "
        "string instead; comparison / boolean operators are checked through CPython only; ellipsis-shortened names are "
        "outside the claim. Tie: ~900 (thorough ~6000) trees, 210 (1800) symbolic programs in three algebras evaluated "
        "against C10's model, 240 (2400) generated pointer names re-parsed. Four defects found and repaired.",
        "Trusted: Coq kernel; Model/ExprTree.v, Model/Symbolic.v; CPython's parser as the reference grammar; harness.",
        "DESIGN.md section 5, C06",
    ),
    "C20": (
        "Coq proofs (selection loop by induction; insertion sort is a sorted permutation; pair count) about a hand-written "
        "executable model of examine.py with exact dyadic arithmetic and '%0.2f' rounding; outputs compared in Coq",
        "Theorems for every list of terms and every count / threshold setting: text lists a prefix of the terms sorted by "
        "non-increasing similarity (so it never omits a term more similar than one it lists), only given terms, at least "
        "min(minimum, #terms), at most maximum when minimum <= maximum, and beyond the minimum only terms above the "
        "threshold; pairs are exactly (both directions) the n(n-1)/2 pairs of distinct positions. similarity's entries are by definition the dot "
        "products (or cosines, 0 for a zero row) in vocabulary order; the tie compares them for every data shape x "
        "vocabulary form x zero rows x normalize, 0..8 keys, and text's output string character by character over "
        "19 count pairs x 5 thresholds x 4 term forms (incl. more terms than keys), and after rejected additions to the vocabulary. Two defects (list inputs under NumPy 2, empty vocabulary) found "
        "and repaired.",
        "Trusted: Coq kernel + vm_compute; Model/Examine.v; vectors are dyadic so similarities and their formatting are "
        "exact; text(normalize=True) only checked for ordering; an empty *list* vocabulary (no dimensionality) is unclaimed.",
        "DESIGN.md section 5, C20",
    ),
    "C13": (
        "Coq/MathComp proofs (transform = similarity-weighted sum of targets; orthonormal sources map exactly; an exact "
        "solver solution maps every source row; key-set laws) about a hand-written executable model of transform_to / "
        "translate; matrices, key sets, warnings and translated pointers compared with the implementation in Coq",
        "Theorems for every commutative ring, all dimensionalities and key sets: T x = sum over the used keys of <s_k, x> t_k; "
        "if the used source entries are orthonormal T s_j = t_j; any exact solution X of from.X = to (the least-squares "
        "solver's post-condition for independent sources) satisfies X^T s_j = t_j; only requested keys held by both "
        "vocabularies are used; a warning is issued iff populate is unspecified and keys are missing; the target is unchanged "
        "unless populate is True, in which case exactly the missing requested keys are appended; a key requested more than once "
        "counts once, requesting every source key is requesting none, requested keys the source does not hold are ignored "
        "(Theory/TranslateKeys.v). The source is never "
        "changed, reinterpret keeps vector / follows or keeps the algebra, translated pointers belong to the target and "
        "create_subset is an independent copy: checked by the tie on every configuration (3 algebras x source kinds x key "
        "overlaps x strict x populate x solver x requested). Two defects found and repaired.",
        "Trusted: Coq kernel + vm_compute; Model/Translate.v; with populate=True the new target vectors are read back from "
        "the implementation; np.linalg.lstsq observed through its results; dynamic-node translate is covered by C01.",
        "DESIGN.md section 5, C13",
    ),
    "C16": (
        "Coq proofs (div/mod layout arithmetic: the ensemble slices partition [0,d) in order, neuron slices partition "
        "[0, npd*d) in the same order, function outputs concatenate in dimension order) about a hand-written executable model; "
        "structure of the built graph compared with the model in Coq; behaviour checked by Direct-mode and rate simulation",
        "Theorems for all dimensions d and subdimensions sub | d, both representation modes: the input/output slices of the "
        "ensembles cover every dimension exactly once in order (so with ideal neurons the module is the identity map), the "
        "neuron-level input and output slices (same function of the layout) cover every neuron exactly once in ensemble "
        "order, per-ensemble function outputs are concatenated in dimension order, non-divisible dimensionalities are "
        "rejected. PARTIAL: 'ideal neurons', holding with feedback 1 and the independence of neurons are runtime behaviour "
        "of Nengo: checked by Direct-mode simulation of every split at d <= 8 (thorough 16), a feedback run, and seeded "
        "LIFRate runs (inhibit all / drive one entry). Tie: every (d, sub) with sub | d, d <= 24 (thorough 64): slices, "
        "ensemble sizes, neuron slices, add_output slices read from the built graph; list-valued add_output (one function per "
        "ensemble / three functions) in Direct mode. Feedback (Model/StateDyn.v, the recurrence Nengo steps with ideal "
        "neurons, confirmed to 1e-16): theorems - with feedback 1 the value is held for every number of steps whatever the "
        "synapse, in general it decays as (a + (1-a) f)^n, with feedback 0 nothing is kept; traces for several splits, modes "
        "and synapses are compared with the model in Coq. Two defects (add_output on degenerate splits; the three-function "
        "form with several remaining ensembles) found and repaired.",
        "Trusted: Coq kernel; Model/IdEnsArray.v; Nengo's connection semantics and Direct / LIFRate neuron models; harness "
        "graph reader.",
        "DESIGN.md section 5, C16",
    ),
    "C19": (
        "Coq/MathComp proofs of the logic around the random draws (orthogonalisation from the solver's post-condition, "
        "axis vectors, create_vector decision table; unitary => isometry is C12) plus in-Coq relation checks on the exact "
        "value of every yielded vector",
        "Theorems for every commutative ring and all sizes: a new OrthonormalVectors vector built from any exact solution "
        "of the coded linear system is orthogonal to every earlier vector and normalisation keeps that; AxisAlignedVectors "
        "are the d basis vectors in order; unknown properties are rejected and VTB/TVTB unitary+positive is the identity "
        "with a warning. PARTIAL: the generators' outputs are floating-point functions of NumPy's RandomState / FFT: unit "
        "norm, 1/sqrt(d) scaling of the draws, pairwise orthonormality and exhaustion after d, unitarity, HRR positivity, "
        "and for EquallySpacedPositiveUnitaryHrrVectors the fixed step (v_{j+1} = v_j*step incl. the wrap-around), offset 0 = "
        "identity, offset+1 = one step, offsets add under binding, are relation-checked in Coq by integer arithmetic on the "
        "dyadic outputs for every yielded vector (d up to 24 / thorough 64, n to 6 / 16, five offsets). Fourier domain, every "
        "d and n (Theory/EquallySpaced.v): real vectors with the spectra o_k r_k^j that the generator feeds to irfft are each "
        "the previous one bound with one fixed step, return to the first after n steps when r_k^n = 1, start at the identity "
        "for offset 0 and are all unitary; that NumPy's irfft realises those spectra stays numeric. Every entry point "
        "(next, iteration, .next()) and consumers that modify yielded vectors are exercised. Same-seed reproducibility and different-seed difference are tested.",
        "Trusted: Coq kernel + vm_compute; NumPy RandomState / FFT / solve observed through results; SciPy absent "
        "(positive VTB/TVTB vectors raise ImportError); tolerance 1e-8 / 1e-7 on relations.",
        "DESIGN.md section 5, C19",
    ),
    "C01": (
        "Coq/MathComp proof of compiler correctness (structural induction over expression trees, generic in a commutative "
        "ring and in any algebra satisfying the AbstractAlgebra contract, instantiated for HRR, VTB, TVTB) about a "
        "hand-written executable model of ast/dynamic.py + connectors; Direct-mode simulation of the networks the real "
        "operators build, compared in Coq with Semantic-Pointer arithmetic and with the model's build/connect_to, plus a "
        "structural comparison of the AST objects",
        "Theorems for every commutative ring, every expression tree (no depth bound), all source values: whenever the "
        "operator methods accept an expression (build e = Ok), e >> sink delivers eval_sp e (Semantic-Pointer arithmetic), "
        "for HRR/VTB/TVTB with every valid dimensionality and for any lawful algebra; pending-transform composition "
        "np.dot(outer, inner) is composition for all 13 shape combinations; scalar fan-in vs Superposition; several "
        "statements add; the built node is well shaped. Clause 'fixed pointer scaled by a dynamic scalar': proved for typed "
        "symbols (after fix 61ffec1), REFUTED for SemanticPointer objects (NotImplementedError; known finding). PARTIAL: "
        "ideal components are assumed (Direct mode: a connection delivers transform*value, modules compute their function "
        "exactly, steady state); vocabularies are identified with their dimensionality (vocabulary identity: C02); "
        "Transcode adapters, symbols without vocabulary and NumPy number kinds are covered by the tie only. Tie: "
        "bounded-exhaustive operator x operand-kind x order layer at depth 1-2 plus random trees to depth 3 (5), 1-3 "
        "statements per sink, nine Transcode/State source forms, two sink forms, HRR d in {4,5} ({3,4,5,8}), VTB/TVTB d in "
        "{4,16} ({4,9,16}); ill-typed combinations must raise; translate matrices are computed by the harness (sum of outer "
        "products over the common keys, target keys held in another order), not taken from transform_to; number-valued "
        "expression strings as Transcode sources deliver the number times the algebra's own identity.",
        "Trusted: Coq kernel + vm_compute; Model/Dynamic.v and Model/Parse.v (specification evaluator with radicands); "
        "Nengo's builder and Direct-mode simulator as the realisation of 'ideal neurons'; harness (generator, renderers, "
        "Z.sqrt comparator).",
        "DESIGN.md section 5, C01",
    ),
    "C15": (
        "Coq/MathComp proofs (bigop algebra over an ordered ring, list permutation invariance) about a hand-written "
        "executable model of associative_memory.py; exact comparison of the built networks' connection transforms and "
        "Direct-mode outputs with the model in Coq; seeded rate-neuron simulations compared with the ideal-unit memory",
        "Theorems for every ordered ring, any number of keys and any dimensionalities: utilities are the similarities to "
        "the keys; with linear selection the output is the sum of the paired outputs weighted by similarity, independent "
        "of mapping order; the network's route np.dot(V.T, s) realises that pairing; with ideal threshold units a key "
        "above the threshold whose competitors are at or below it yields its own output alone, and an input at or below "
        "the threshold everywhere yields the zero vector; the default gate is open when no unit is active and closed when "
        "any unit reaches min_activation_value; missing, empty and ill-typed mappings are rejected, key sequences and "
        "'by-key' are auto-associative. PARTIAL: the winner-take-all and accumulator clauses (clean key alone; only the "
        "stronger of two competitors) rest on dynamics that are not modelled; they are checked by seeded LIFRate "
        "simulation against the intended steady state at 0.15 tolerance, as is the idealisation 'thresholding ensemble = "
        "threshold unit'.",
        "Trusted: Coq kernel + vm_compute; Model/AssocMem.v; Vocabulary.parse for key/output expressions (C10); Nengo "
        "builder and simulator (Direct mode for the exact part, LIFRate with fixed seeds for the selection part); harness.",
        "DESIGN.md section 5, C15",
    ),
    "C04": (
        "Coq/MathComp proof (bigop algebra over the list of wires, any number of actions and effects) about a hand-written "
        "executable model of ActionSelection._build and the thalamus routing helpers with ideal gates / channels; exact "
        "multiset comparison of the wiring of built Nengo graphs with the model in Coq; seeded rate-neuron simulations of "
        "whole blocks compared with the ideal model per winner phase",
        "Theorems for every ordered ring, any rule set (no bound on actions, effects, targets) and any gate threshold in "
        "[0,1): under a one-hot selection every target receives exactly the sum of the winner's effects (fixed and "
        "dynamic, pointer and scalar) and nothing from any other action, pointwise in time, so routed effects follow the "
        "winner; utilities are connected index by index. For ANY selection activity (Theory/RoutingRobust.v): the received value of every component of every target as an explicit sum over actions (fixed effects scaled by the unit's activity, dynamic effects passed iff the gate is open), and the leak bound |received - winner's effects| <= eps * (total fixed effect of the losers) whenever the losers' activities are at most eps with closed gates. PARTIAL: that the basal ganglia / thalamus make the selection "
        "one-hot for a clear margin is a property of neural dynamics that is not modelled; it is observed in every "
        "simulated phase (winner > 0.75, losers < 0.2) and a failure is reported as a violation; the values of dynamic "
        "effect expressions are those of C01. Tie (a) exact: which thalamus ensemble drives each fixed connection / gate, "
        "transforms, bias, the gate inhibiting every neuron of its own channel with -route_inhibit, channel kind, "
        "channel -> target, source -> channel, utility -> BG input index; (b) LIFRate blocks with 2-4 actions, 2-3 winner "
        "phases, three seeds.",
        "Trusted: Coq kernel + vm_compute; Model/Routing.v; Nengo builder / simulator (LIFRate, fixed seeds); harness graph "
        "extraction.",
        "DESIGN.md section 5, C04",
    ),
    "C05": (
        "Coq/MathComp proofs (index arithmetic of the product-unit layout; the per-block MatrixMult composition equals the "
        "kron/reshape binding core; helper matrices are the transposition) about a hand-written executable model of the "
        "binding networks; Direct-mode simulation of the real networks compared with the model in Coq on complete bases",
        "Theorems for every commutative ring and all sizes: MatrixMult((m,k),(k,n)) computes the exact matrix product; "
        "inversion_matrix and swapping_matrix are the s x s transposition permutation; the VTB network without options is "
        "vtb_bind, with unbind_right it is bind(left, rinv right), with unbind_left it is sqrt(s) W^T X, both options are "
        "rejected; the TVTB network is sqrt(s) A B, sqrt(s) A B^T and sqrt(s) X^T W respectively - by C08 these return y "
        "exactly when x is unitary and are their bilinear extension otherwise. The HRR CircularConvolution network is proved for "
        "every d over the complex numbers of any real closed field (Theory/HrrNet.v: half-spectrum products of Re / Im parts with "
        "weights 1 / 2 recombined with the inverse-transform rows = circular convolution, given a primitive d-th root of unity; "
        "the rows remove_imag_rows targets multiply identically vanishing quantities). PARTIAL: that the implementation's three "
        "matrices are those tables is checked numerically row by row for d = 1..32 (thorough 1..128), and its output on the "
        "complete basis for every tested d (1..9, thorough 1..24) under all four option settings (invert_a / invert_b are proved too: "
        "conjugated tables bind with the inverse). Tie: MatrixMult shapes up to 3 (5), VTB/TVTB d in {1,4,9} (+16,25), network, spa.Bind and Bind "
        "configured through config, all "
        "option sets, unitary x with basis y, linearity probes. One defect (TVTB unbind_left) found and repaired.",
        "Trusted: Coq kernel + vm_compute; Model/Nets.v; Nengo Direct-mode semantics (products exact, connections deliver "
        "transform * value, unfiltered connections act in the same step); harness.",
        "DESIGN.md section 5, C05",
    ),
}

NOT_YET = "not yet built in this revision of /verif (design in DESIGN.md section 5); no check is claimed"


def main():
    props = [json.loads(l) for l in open(os.path.join(VERIF, "properties.jsonl"))]
    ids = [p["id"] for p in props]
    extra = {}
    try:
        extra = json.load(open(os.path.join(VERIF, "harness", "manifest_extra.json")))
    except FileNotFoundError:
        pass
    checks = []
    for cid in ids:
        if cid not in CLAIMED:
            continue
        tech, text, note, ref = CLAIMED[cid]
        checks.append({
            "property_id": cid,
            "quick_cmd": f"/venv/bin/python harness/check.py {cid} --tier quick",
            "thorough_cmd": f"/venv/bin/python harness/check.py {cid} --tier thorough",
            "evidence_file": f"/verif/evidence/{cid}.json",
            "replay_cmd_template": f"/venv/bin/python harness/check.py {cid} --replay {{path}}",
            "engine": "coq-model-tie",
            "level_claimed": {"category": "proof", "text": text, "design_ref": ref},
            "level_note": note,
            "technique": tech,
        })
    na = extra.get("not_applicable", {})
    manifest = {
        "version": 1,
        "setup_cmd": "cd /verif/coq && coq_makefile -f _CoqProject -o Makefile && timeout 3000 make -j16",
        "hooks": {
            "guard": "NENGO_SPA_VERIF",
            "enable": "no hooks are needed: checks import /repo's working tree with PYTHONPATH=/repo and observe public objects; "
                      "the guard variable is set by harness/check.py but read by nothing in /repo",
            "baseline_off_cmd": "cd /repo && /venv/bin/python -m pytest -ra -q -p no:cacheprovider --timeout=900 --continue-on-collection-errors",
            "source_commits": extra.get("source_commits", []),
            "add_only": True,
        },
        "engines": [{
            "name": "coq-model-tie",
            "path": "/verif/coq + /verif/harness",
            "serves_properties": [c["property_id"] for c in checks],
            "kind_free_text": "Coq 8.16 development (Model/ executable Gallina, Theory/ lemmas, Props/ theorems with Print Assumptions, "
                              "Tie/ in-Coq comparators) + Python harness that runs /repo on generated cases and has coqc evaluate the model "
                              "on the same cases (vm_compute)",
        }],
        "checks": checks,
        "notes": "Family: machine-checked proof in Coq. See DESIGN.md. Known findings: known_findings.json.",
        "not_applicable": [
            {"property_id": cid, "reason": na.get(cid, NOT_YET)} for cid in ids if cid not in CLAIMED
        ],
    }
    schema = json.load(open("/root/.vp/MANIFEST.schema.json"))
    jsonschema.validate(manifest, schema)
    with open(os.path.join(VERIF, "MANIFEST.json"), "w") as f:
        json.dump(manifest, f, indent=1)
    print("MANIFEST.json written:", len(checks), "checks,", len(manifest["not_applicable"]), "not claimed")


if __name__ == "__main__":
    sys.exit(main())

#!/venv/bin/python
"""Self-test of the checks against seeded, test-passing, property-breaking changes.

usage: seeded.py import <src-dir> <Cxx> <name>   copy patch.diff / demo.py / meta.json into /verif/seeded/<Cxx>-<name>/
       seeded.py run <Cxx>-<name> [tier]          apply the patch to /repo, run the demonstration and the check, restore
       seeded.py all [tier]                       run every seeded change

Each seeded/<id>/ holds patch.diff (applies with `git -C /repo apply`), demonstration.py (exits 1 on the patched
tree, 0 on the unchanged one) and meta.json (what was changed, what triggers it, and - written by `run` - which tier
of which check reported it).  /repo is always restored with `git -C /repo checkout -- .`; nothing is committed there.
"""
import json
import os
import shutil
import subprocess
import sys
from pathlib import Path

VERIF = Path(__file__).resolve().parent.parent
SEEDED = VERIF / "seeded"
ENV = dict(os.environ, PYTHONPATH="/repo", PYTHONHASHSEED="0", OMP_NUM_THREADS="1", OPENBLAS_NUM_THREADS="1")


def sh(cmd, **kw):
    return subprocess.run(cmd, capture_output=True, text=True, **kw)


def clean_repo():
    r = sh(["git", "-C", "/repo", "status", "--porcelain"])
    return r.stdout.strip() == ""


def do_import(src, cid, name):
    src = Path(src)
    dst = SEEDED / f"{cid}-{name}"
    dst.mkdir(parents=True, exist_ok=True)
    shutil.copy(src / "patch.diff", dst / "patch.diff")
    shutil.copy(src / "demo.py", dst / "demonstration.py")
    meta = json.loads((src / "meta.json").read_text())
    meta["property"] = cid
    meta["origin"] = "sub-agent given only the property text and a scratch worktree"
    (dst / "meta.json").write_text(json.dumps(meta, indent=1))
    print("imported", dst)


def do_run(sid, tier="quick"):
    d = SEEDED / sid
    meta = json.loads((d / "meta.json").read_text())
    cid = meta["property"]
    if not clean_repo():
        print("refusing: /repo working tree is not clean")
        return 2
    res = {"tier": tier}
    try:
        # demonstration on the unchanged tree
        r0 = sh(["/venv/bin/python", str(d / "demonstration.py")], env=ENV, timeout=300)
        res["demo_clean_exit"] = r0.returncode
        a = sh(["git", "-C", "/repo", "apply", str(d / "patch.diff")])
        if a.returncode != 0:
            print("patch does not apply:", a.stderr[:300])
            res["applies"] = False
            res["caught"] = None      # an earlier verdict must not survive a patch that no longer applies
            meta.setdefault("results", {})[tier] = res
            (d / "meta.json").write_text(json.dumps(meta, indent=1))
            return 2
        res["applies"] = True
        r1 = sh(["/venv/bin/python", str(d / "demonstration.py")], env=ENV, timeout=300)
        res["demo_patched_exit"] = r1.returncode
        res["demo_patched_output"] = (r1.stdout + r1.stderr).strip()[-300:]
        b = sh(["/venv/bin/python", str(VERIF / "harness" / "baseline.py")], env=ENV)
        res["pinned_tests_pass"] = b.returncode == 0
        ck = sh(["/venv/bin/python", str(VERIF / "harness" / "check.py"), cid, "--tier", tier], timeout=7200)
        lines = [ln for ln in ck.stdout.splitlines() if ln.startswith("VIOLATION")]
        res["check_exit"] = ck.returncode
        res["violation_lines"] = len(lines)
        res["caught"] = ck.returncode == 1 and len(lines) > 0
        if lines:
            rp = lines[0].split("replay=")[1].split()[0]
            try:
                res["first_violation"] = json.loads(Path(rp).read_text()).get("what", "")[:300]
            except Exception:  # noqa
                pass
            res["no_failing_input_found_only"] = all(ln.rstrip().endswith("no-failing-input-found") for ln in lines)
    finally:
        sh(["git", "-C", "/repo", "checkout", "--", "."])
        sh(["git", "-C", "/repo", "clean", "-fdq", "nengo_spa"])
    meta.setdefault("results", {})[tier] = res
    (d / "meta.json").write_text(json.dumps(meta, indent=1))
    print(f"{sid}: demo clean={res.get('demo_clean_exit')} patched={res.get('demo_patched_exit')} tests={res.get('pinned_tests_pass')} "
          f"check[{tier}] caught={res.get('caught')}  {res.get('first_violation', '')[:120]}")
    return 0


def main():
    if sys.argv[1] == "import":
        do_import(*sys.argv[2:5])
    elif sys.argv[1] == "run":
        return do_run(sys.argv[2], sys.argv[3] if len(sys.argv) > 3 else "quick")
    elif sys.argv[1] == "all":
        tier = sys.argv[2] if len(sys.argv) > 2 else "quick"
        for d in sorted(SEEDED.iterdir()):
            if (d / "patch.diff").exists():
                do_run(d.name, tier)
    return 0


if __name__ == "__main__":
    sys.exit(main())
